// Package meta holds the per-property metadata the driver needs (tier sizes,
// evidence texts). It imports nothing from gobwas/ws, so the driver keeps
// building whatever state /repo is in.
package meta

// Spec describes how a property is explored.
type Spec struct {
	ID       string
	Engine   string
	Level    string // exploration | fault_enumeration
	Quick    int    // runs in the quick tier
	Thorough int    // runs in the thorough tier
	QuickCap int    // wall-clock safety cap per worker, seconds
	ThorCap  int
	Race     bool // worker built with -race
	Workers  int  // 0 = number of CPUs
	Rule     string
	Stub     []string
	Assume   []string

	LevelText string
	LevelNote string
	DesignRef string
	Technique string
}

// NA is a property not claimed, with the reason.
type NA struct{ ID, Reason string }

// NotApplicable lists every property without a check. Entries whose id has a
// Spec in All are ignored (the manifest generator filters them).
var NotApplicable = []NA{
	{"C01", "pure codec over inputs (all headers, lengths, byte strings): no transport, fault, schedule or history in its statement; deterministic simulation has nothing to decide (DESIGN.md §5). Header parsing from a segmented transport is exercised incidentally by C04/C05/C16."},
	{"C02", "XOR masking is a pure function of (payload, key, offset); 'any chunking' is an argument, not an environment (DESIGN.md §5). CipherReader under seeded segmentation is exercised incidentally by C04, client masking by C06/C08."},
	{"C03", "pure predicates over (header, state) and (code, reason); the simulator uses an independent restatement of these rules as its oracle and does not test them (DESIGN.md §5)."},

	{"C09", "decision of the upgrader over all requests of a grammar x callback configurations: a pure function of the request bytes; the simulation only ever feeds it requests written by the library's own dialer (C11) or cuts of them (C16) (DESIGN.md §5)."},
	{"C10", "decision of the dialer over all responses of a grammar and URL forms: a pure function of response bytes and configuration; only its 'bytes after the head stay readable' clause has a delivery dimension and that is checked inside C11/C16 (DESIGN.md §5)."},

	{"C14", "a grid of (server parameters x offers) through a pure negotiator; the only history in it (reset) is covered by C18 (DESIGN.md §5)."},
	{"C15", "'for arbitrary bytes never panics/hangs' explored by coverage-guided mutation is fuzzing of pure decoders, not simulation; panics or frozen step counters met inside claimed properties' runs are still reported there (DESIGN.md §5)."},
}

var Real = []string{
	"github.com/gobwas/ws (from /repo working tree)", "github.com/gobwas/ws/wsutil", "github.com/gobwas/ws/wsflate",
	"github.com/gobwas/httphead v0.1.0", "Go 1.26.8 standard library as used by ws (bufio, io, compress/flate, net/http, context, crypto/sha1)",
}

var stubWire = []string{
	"transport: wire.Pipe (scripted peer byte stream with seeded segmentation, cuts and write failures)",
	"github.com/gobwas/pool -> /verif/simpool (same API, deterministic reuse policy, poison on put, canaries)",
	"peer endpoint: reference RFC 6455 encoder/decoder (verif/ref), not ws.ReadHeader/WriteHeader",
	"math/rand: reseeded from the choice tape before every run",
}

var assumeCommon = []string{
	"sampling, not proof: a clean batch covers the seeds, workloads and fault points listed here",
	"TCP/TLS/kernel are not simulated; the transport is a reliable ordered byte stream that may be segmented, cut or fail",
	"reference codec and rule tables in verif/ref are correct restatements of RFC 6455",
}

var All = []*Spec{
	{ID: "C04", Engine: "wire", Level: "exploration", Quick: 60000, Thorough: 3000000,
		Rule: "each run draws side, entry point (Reader loop with callbacks, NextReader, ReadMessage(+side variants), ReadData and its six variants), a valid frame stream (1-6 messages, 1-5 fragments incl. empty, pings/pongs anywhere, lengths around 125/126 and 65535/65536), a transport segmentation mode and caller buffer sizes from the seed; non-trivial = at least one transport read ended strictly inside the stream (a real split) or a fault fired; distinct = distinct event-trace digests among those",
		Stub: stubWire, Assume: assumeCommon,
		LevelText: "seeded exploration: every run is one exactly repeatable execution of the real reader stack on a simulated transport; the oracle is a message-level reference model (exact payloads, headers, callback order) plus a byte ledger (no over-read). Sampling over streams x segmentations x buffer sizes, not proof.",
		LevelNote: "trusted: reference encoder and model in /verif/ref and /verif/wire; assumes a reliable ordered byte stream that only segments (faults are C16's).",
		DesignRef: "§4 C04", Technique: "deterministic simulation: seeded transport segmentation + reference message model"},
	{ID: "C05", Engine: "wire", Level: "exploration", Quick: 80000, Thorough: 6000000,
		Rule: "each run draws a valid prefix (0-3 messages, any fragmentation, interleaved controls), a position k (message open or not), one frame breaking exactly the drawn RFC 6455 rule in that state (reserved opcode, control >125, control not final, RSV without extension, wrong mask bit, nested data / stray continuation, length above a MaxFrameSize drawn around it), followed by the rest of the stream; entry point, segmentation and buffers from the seed; non-trivial = a transport read split inside the stream; distinct = trace digests",
		Stub: stubWire, Assume: assumeCommon,
		LevelText: "seeded exploration of (valid prefix x offending frame x state x chunking); oracle: everything before frame k delivered exactly as for a valid stream, the call asking for frame k returns ws.ProtocolError or ErrFrameTooLarge, no marker byte of frame k or later is ever delivered.",
		LevelNote: "trusted: the RFC rule table in /verif/ref (independent of ws.CheckHeader); which rule is named is not checked.",
		DesignRef: "§4 C05", Technique: "deterministic simulation: seeded invalid-frame injection + reference rule table"},
	{ID: "C06", Engine: "wire", Level: "exploration", Quick: 80000, Thorough: 6000000,
		Rule: "each run draws a constructor (NewWriter, NewWriterSize, NewWriterBufferSize, NewWriterBuffer, GetWriter), a buffer size around the 125/126 and 65535/65536 header-reservation thresholds, side, opcode, DisableFlush, extension, and a history of 1-12 calls from {Write, Write(empty), ReadFrom (chunked source, optional trailing error), io.Copy, WriteThrough, FlushFragment, Flush, Grow} with sizes relative to the buffer, or one of the seven WriteMessage helpers; non-trivial = history longer than one call; distinct = trace digests (destination write-call boundaries)",
		Stub: stubWire, Assume: assumeCommon,
		LevelText: "seeded exploration of call histories; after every call the bytes received by the destination are decoded by the reference decoder: whole frames at every call boundary, first frame opcode / continuations / only the last final, RSV only from the extension, MASK iff client with payload = accepted bytes, Flush of nothing emits nothing, fits-the-buffer => one frame, DisableFlush => nothing before Flush then one frame, Buffered() = accepted minus sent.",
		LevelNote: "fault-free destination (write failures are C16's); whether a zero-length write followed by Flush yields an empty message or nothing is left open; ErrNotEmpty from WriteThrough is a legal refusal.",
		DesignRef: "§4 C06", Technique: "deterministic simulation: seeded call histories vs reference frame decoder on the destination ledger"},
	{ID: "C07", Engine: "wire", Level: "exploration", Quick: 80000, Thorough: 6000000,
		Rule: "each run builds 1-3 text/binary messages from a structured UTF-8 cover (boundary runes of every length, overlongs, surrogates, >U+10FFFF, truncated tails, every lead byte x boundary continuation bytes), splits them into fragments at arbitrary bytes (also inside sequences), interleaves pings, and reads them through Reader{CheckUTF8}, ReadMessage, ReadData or the standalone UTF8Reader under seeded segmentation and buffer sizes; non-trivial = invalid text present or a real transport split; distinct = trace digests",
		Stub: stubWire, Assume: append([]string{"the clause 'all byte strings up to 3 bytes' is sampled through the cover, not enumerated"}, assumeCommon...),
		LevelText: "seeded exploration; oracle is unicode/utf8.Valid on the concatenated payload: valid <=> delivered complete without error, invalid => ErrInvalidUTF8 no later than the end and never a complete message; binary never checked; UTF8Reader.Valid() after draining equals utf8.Valid and a reject is never premature.",
		LevelNote: "trusted: unicode/utf8 as the definition of well-formed UTF-8.",
		DesignRef: "§4 C07", Technique: "deterministic simulation: seeded fragment/segment/buffer boundaries vs unicode/utf8 oracle"},
	{ID: "C08", Engine: "wire", Level: "exploration", Quick: 80000, Thorough: 6000000,
		Rule: "each run draws side, an entry point (ControlHandler.Handle on a masked or pre-unmasked source, ControlFrameHandler called directly, HandleControlMessage and its Client/Server variants, Reader loop with ControlFrameHandler as OnIntermediate, ReadMessage+HandleControlMessage, ReadData inline) and ping/pong/close frames with payloads 0..125 (close codes from every RFC class, valid / invalid-UTF-8 / 1-byte bodies) alone or between data fragments under seeded segmentation; or a history of 1-6 Write/Flush calls on NewControlWriter / NewControlWriterBuffer whose total crosses 125; non-trivial = at least one control frame handled; distinct = trace digests",
		Stub: stubWire, Assume: assumeCommon,
		LevelText: "seeded exploration; the reply ledger is decoded by the reference decoder: ping -> one pong with identical payload, pong -> nothing, close -> same code / empty / 1002 (1002 or 1007 for a bad reason) with a body the RFC close rules accept; every reply is a single final frame <=125, masked iff sent by a client, accepted by ws.CheckHeader under the peer's state; return value is ClosedError{code,reason} or a ws.ProtocolError; the control writer never emits a frame >125 or non-final and refuses the write that would cross the limit.",
		LevelNote: "whether the close reason is echoed and the mask value are not checked; codes 1012-1014 and >=5000 are never generated (left open by the property).",
		DesignRef: "§4 C08", Technique: "deterministic simulation: seeded control frames through every entry point vs reference reply table"},
	{ID: "C11", Engine: "wire", Level: "exploration", Quick: 20000, Thorough: 1500000,
		Rule: "each run draws a dialer configuration (0-3 subprotocols incl. an invalid token now and then, 0-3 extension offers with 0-11 parameters, repeated names, extra headers up to several KiB, Host override, URL form, read/write buffer sizes 0/16../4096, plain Upgrade or DebugDialer with either callback) and an upgrader configuration (Upgrader / HTTPUpgrader through a stub net/http hijacker / DebugUpgrader; Protocol, ProtocolCustom, Negotiate incl. wsflate.Extension, deprecated Extension, header writers, rejecting On* callbacks with custom status, buffer sizes, frames sent right behind the 101) and runs request -> response -> verdict on simulated transports with independently seeded segmentation per direction; non-trivial = every run (both peers are real code); distinct = trace digests",
		Stub: append([]string{"net/http server loop: http.ReadRequest on the simulated bytes + stub ResponseWriter/Hijacker", "NetDial for DebugDialer: returns the simulated conn"}, stubWire...), Assume: assumeCommon,
		LevelText: "seeded exploration of configuration pairs x chunkings. O1: both peers fail, or both succeed with equal subprotocol and equal extension lists (names and parameters in order), and the values equal a small model of the selectors where the model applies. O2: for one peer on byte-identical input, error, Handshake and bytes written are identical between one-segment/default-buffers and the seeded segmentation/buffer sizes (nonce reseeded identically). O3: Debug wrappers report exactly the request/response bytes, do not change the outcome, and every byte sent behind the 101 is readable once, in order.",
		LevelNote: "dialer and upgrader run one after the other on recorded bytes (request, then response): for a strict request/response exchange this is equivalent to any interleaving, what an interleaving changes - how much is readable per Read - being the seeded segmentation; user callbacks that break their contract and client bytes pipelined before the response are not generated.",
		DesignRef: "§4 C11", Technique: "deterministic simulation: real dialer vs real upgrader over simulated transports, seeded segmentation and buffer sizes, differential re-runs"},
	{ID: "C12", Engine: "wire", Level: "exploration", Quick: 16000, Thorough: 1000000,
		Rule: "each run draws a message (empty, tiny, incompressible, highly compressible, >32 KiB window), a compression level -2..9 and a history of Write(chunk)/Flush/Close on wsflate.Writer; or feeds wsflate.Reader the sync-flushed, tail-stripped output of an independent encoder (klauspost/compress or compress/flate used directly) through a segmented source with or without io.ByteReader; or exercises the frame helpers; or plugs in a faulty compressor (flush without sync marker, last byte dropped, stray byte after the marker, write error); non-trivial = history with more than one write/flush, an independent-encoder source, or a fault; distinct = trace digests",
		Stub: append([]string{"compressor faults: wrappers around compress/flate injected through wsflate's constructor argument", "independent DEFLATE: github.com/klauspost/compress/flate v1.20.0 and compress/flate called directly"}, stubWire...), Assume: assumeCommon,
		LevelText: "seeded exploration; oracle: writer output + 00 00 ff ff inflates (two independent decoders that must agree) to exactly the message after Flush and after Close; the reader recovers the message from the library's and from independent encoders' output for any chunking; helpers keep the header but RSV1/length and refuse non-final frames; a compressor that does not end a flush with the tail makes Flush fail.",
		LevelNote: "the library contains no DEFLATE code of its own: what is under test is cbuf / suffixedReader / tail handling.",
		DesignRef: "§4 C12", Technique: "deterministic simulation: seeded write/flush histories, segmented sources and injected compressor faults vs independent inflaters"},
	{ID: "C13", Engine: "wire", Level: "exploration", Quick: 24000, Thorough: 2000000,
		Rule: "each run either writes 1-4 compressed/uncompressed messages through wsflate.Writer -> wsutil.Writer(SetExtensions(&state)) with buffer sizes forcing 1..n fragments, pings written between fragments, either side, and reads them back through wsutil.Reader{Extensions,StateExtended} -> wsflate.Reader under seeded segmentation; or lets a scripted peer send every RSV pattern (0..7) on first, control and continuation frames; non-trivial = every run; distinct = trace digests",
		Stub: stubWire, Assume: assumeCommon,
		LevelText: "seeded exploration; oracle on the wire (reference decoder): RSV1 on the first frame of compressed messages and nowhere else; on receipt IsCompressed() = first frame had RSV1, unchanged by control frames between fragments, header handed over has RSV1 cleared and RSV2/3 untouched, RSV1 on a continuation or control frame is a ws.ProtocolError; the message read back equals the message written.",
		LevelNote: "compressor is compress/flate; reader-side draining after the inflater reaches the end of the DEFLATE stream is done by the application as documented.",
		DesignRef: "§4 C13", Technique: "deterministic simulation: documented writer/reader stacks over a simulated transport + scripted RSV patterns"},
	{ID: "C16", Engine: "wire", Level: "fault_enumeration", Quick: 4000, Thorough: 160000, QuickCap: 150, ThorCap: 1700,
		Rule: "workloads (stream, entry point, segmentation, application decisions) are sampled from the seed; for each workload the fault point is enumerated: every byte offset of the stream x {EOF, transport error} when the stream is <= 2 KiB (else all offsets around every header/frame boundary plus 64 seeded payload offsets), the same application decisions being replayed at every point; evaluations = workloads, fault_points_enumerated = executions; distinct = trace digests of workloads",
		Stub: stubWire, Assume: assumeCommon,
		LevelText: "fault enumeration: per sampled workload every cut point is executed. Oracle: units wholly before the cut are delivered exactly; no API reports success for the cut unit; a cut payload or a stream ending inside a message never yields io.EOF; control handlers never read a clean EOF before Header.Length bytes; Discard of a cut message fails; no reply is produced from a cut control frame.",
		LevelNote: "a cut inside a header while no message is open only has to be an error (io.EOF included); ws.ReadFrame only has to return an error; which error is not checked.",
		DesignRef: "§4 C16", Technique: "deterministic simulation: exhaustive cut-point enumeration per seeded workload"},
	{ID: "C17", Engine: "wire", Level: "exploration", Quick: 16000, Thorough: 1200000,
		Rule: "each run is a sequence of 2-6 operations drawn from: a dialer/upgrader round trip through every library-owned selection path (Upgrader Protocol / Extension / Negotiate incl. wsflate, HTTPUpgrader, Dialer Protocols/Extensions, answers whose parameters differ from the offer), ReadMessage and ReadData over generated streams (pings recycle pooled byte slices), HandleClose, the copying mask helpers (also on frames whose header is already masked), and client-side WriteMessage / WriteThrough / CipherWriter / Writer.Write with payloads across the pool classes up to >65536 and an optionally failing destination; what each operation returns is retained uncopied and re-checked against model-derived values after every later operation; the sim pool recycles immediately (lifo; tape and fresh for contrast) and poisons on put; non-trivial = every run; distinct = trace digests",
		Stub: stubWire, Assume: assumeCommon,
		LevelText: "seeded exploration of operation sequences with maximal aliasing pressure from the simulated pool: results must keep their model-derived value for the rest of the run; caller slices are bit-identical after non-mutating calls, also when the destination write fails; bytes handed to the destination and returned frames do not change when the caller scribbles on its slice; pool canaries intact.",
		LevelNote: "results of user-owned callbacks (ProtocolCustom, ExtensionCustom, a Negotiate callback returning its argument) and ParseCloseFrameDataUnsafe are the caller's responsibility and are not generated.",
		DesignRef: "§4 C17", Technique: "deterministic simulation: seeded operation sequences over a poison-on-put LIFO pool, retained results re-verified after every step"},
	{ID: "C18", Engine: "wire", Level: "exploration", Quick: 60000, Thorough: 4000000,
		Rule: "each run draws an object class (wsutil.Writer via Reset / ResetOp / PutWriter+GetWriter, wsflate.Writer, wsflate.Reader, CipherReader/Writer, UTF8Reader, wsflate.Extension, wsutil.Reader across messages), a first life H1 (any history incl. an injected failed destination write, growth, DisableFlush, extensions, other side, unflushed partial message, truncated/corrupt compressed input, mid-sequence or rejected UTF-8, accepted offer), the reset, and a second life H2; non-trivial = every run (two lives); distinct = trace digests",
		Stub: stubWire, Assume: assumeCommon,
		LevelText: "seeded exploration with a differential oracle: the transcript of H2 (every return value, Size/Available/Buffered or Valid/Accepted getters, bytes sent) on the reused object equals the transcript of H2 on a freshly constructed object with the same buffer length, state and opcode, masks reseeded identically.",
		LevelNote: "the buffer length of a wsutil.Writer is read by reflection (field raw) to build the fresh twin; ResetOp is compared with a fresh writer carrying the same extensions and flush mode, as documented.",
		DesignRef: "§4 C18", Technique: "deterministic simulation: seeded two-life histories with injected I/O errors, differential against a fresh instance"},
	{ID: "C19", Engine: "multi", Level: "exploration", Quick: 1600, Thorough: 48000, QuickCap: 200, ThorCap: 1700, Race: true,
		Rule:      "each run draws 2-8 sessions (thorough: up to 11), each a client task and a server task on their own simulated connection and a deterministic function of its sub-seed: handshake through DefaultDialer/Dialer vs ws.Upgrade / Upgrader{Protocol,Negotiate} / HTTPUpgrader(+UpgradeHTTP), optional permessage-deflate negotiation, 1-6 request/ack exchanges in both directions (WriteMessage variants up to 70000 bytes, GetWriter/PutWriter fragmented writes, ping+message answered inline by ReadData, precompiled frames, wsflate.CompressFrame/DecompressFrame, the compressed writer/reader stacks), then the closing handshake; the seeded scheduler picks the next task at every conn and pool operation (stickiness 0 / 1/2 / 9/10), the sim pool is shared (lifo/tape/fresh), reads are segmented; each session is then re-run alone; workers are built with -race and the scheduler's handoff is invisible to the detector; non-trivial = at least one task switch; distinct = schedule digests",
		Stub:      []string{"task scheduler: /verif/multi (real goroutines released one at a time, raw read(2)/write(2) pipe handoff in //go:norace code)", "net.Conn: multi.Conn (in-memory rings, seeded read segmentation)", "github.com/gobwas/pool -> /verif/simpool (per-item happens-before only, poison on put, canaries, double-put detection)", "net/http server loop: http.ReadRequest + stub Hijacker", "math/rand: left unseeded in this engine (lock-free runtime source); masks and nonces never enter a transcript"},
		Assume:    append([]string{"interleaving granularity is the yield-point set (every conn and pool operation); an unsynchronised shared access between two non-I/O statements is left to the race detector, which stays effective because the scheduler adds no happens-before edge", "the race detector keeps a bounded access history per location: false negatives only"}, assumeCommon...),
		LevelText: "seeded exploration of interleavings of N independent sessions. Oracle: (1) each session's semantic transcript (handshake result, every payload checksum, acks, errors, close) equals the transcript of the same session run alone from the same sub-seed; (2) sim-pool invariants: no double put, poison canaries intact at reuse and at the end; (3) the race detector's log contains no report with a frame in github.com/gobwas/ws (a report wholly inside the harness is exit 2).",
		LevelNote: "session scripts are confluent by construction (strict request/ack, no close of the transport), checked by the solo runs never deadlocking; masks and nonces are not reproducible in this engine and influence no decision.",
		DesignRef: "§4 C19", Technique: "deterministic simulation: seeded race-detector-invisible task scheduler over real goroutines + solo/concurrent differential + go race detector"},
	{ID: "C20", Engine: "dial", Level: "fault_enumeration", Quick: 6400, Thorough: 400000, QuickCap: 150, ThorCap: 1700,
		Rule:      "scenarios are sampled from the seed: context kind (Background, TODO, values-only, WithoutCancel / cancel-only incl. causes and an application-defined type / with deadline at instants around every peer event), Dialer.Timeout (none / shorter / longer / already elapsed), transports whose deadline calls fail or are kept by a WrapConn layer, the debugging dialer, an earlier Dial in the same bubble, connect delay, ws/wss (stub TLS), WrapConn, peer (valid 101 after a delay in 1-4 segments with gaps and optional trailing frame / rejecting / silent / write-blocking), read buffer and per-read segment size; for each scenario the cancellation instant is enumerated: no cancel, cancel after return (order B), cancel at 7 fake-time instants, and cancel at entry and at successful exit of EVERY Read/Write on the conn with the watcher goroutine run to quiescence before the call proceeds (order A, incl. inside the final Read); evaluations = scenarios, fault_points_enumerated = Dial executions, each in its own synctest bubble; distinct = trace digests (return instants, conn call ledgers, errors)",
		Stub:      []string{"clock, timers, context deadlines: testing/synctest fake clock (Go 1.26.8)", "net.Conn: dial.Conn (deadline-honouring, in-bubble sync.Cond + timers, full call ledger)", "NetDial / TLSClient / WrapConn: stubs returning the simulated conn, NetDial honours ctx during its connect delay", "peer: in-bubble timers delivering response segments; Sec-WebSocket-Accept computed independently (crypto/sha1)", "github.com/gobwas/pool -> /verif/simpool", "one scenario in ~250 leaves the simulator (NetDial == nil needs a real socket): the library's own net.Dialer against a silent listener on the kernel's loopback in wall-clock time, Timeout 20 ms, harness safety net 15 s; kept out of digests; skipped where loopback cannot be listened on"},
		Assume:    append([]string{"the runtime's choice between simultaneously ready select cases cannot be seeded; enumerated orders (A) and (B) never make both ready at once"}, assumeCommon...),
		LevelText: "fault enumeration on a fake clock: per sampled scenario every cancellation point is executed. Oracle from the conn ledger and the fake clock: success => conn not closed, deadlines cleared, no call on the conn during a following hour even after a late cancel; failure with a conn => Close before return; context ended during handshake I/O and nothing else failed => errors.Is(err, ctx.Err()); Dial returns no later than min(context end, start+Timeout); no goroutine started by Dial survives its return (goroutine count at quiescence, and bubble exit would deadlock).",
		LevelNote: "the error value when Dialer.Timeout (not the caller's context) expires is not checked; scenarios in which nothing can ever end the wait are not generated; deadline instants avoid exact ties with peer events by 1 ms.",
		DesignRef: "§4 C20", Technique: "deterministic simulation: synctest fake clock + exhaustive cancellation-point enumeration per seeded scenario"},
}

func Find(id string) *Spec {
	for _, s := range All {
		if s.ID == id {
			return s
		}
	}
	return nil
}
