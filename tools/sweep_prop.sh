#!/bin/bash
# tools/sweep_prop.sh <tier> <prop> <seed>...: one property, several seeds (see sweep.sh).
tier=$1; p=$2; shift 2
if [ -n "$VP_RUN_REPO" ] && [ "$(readlink -f .)" != "/verif" ]; then
  GOFLAGS=-mod=mod GOPROXY=off GOSUMDB=off GOTOOLCHAIN=local /opt/veriftools/go1.26.8/bin/go mod edit -replace github.com/gobwas/ws=$VP_RUN_REPO
fi
for seed in "$@"; do
  out=$(VERIF_SEED=$seed ./check $p $tier 2>&1); rc=$?
  echo "seed=$seed $p rc=$rc $(echo "$out" | grep -E '^verif: C' | cut -c1-170)"
  echo "$out" | grep -E '^(violation|VIOLATION|KNOWN|verif: (harness|worker|violation|replay))' -A3 | cut -c1-400 | head -12
done
