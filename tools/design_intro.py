#!/usr/bin/env python3
"""Rewrite the summary paragraph of DESIGN.md §11 from seeded/*/meta.json."""
import json, glob
tot=own=sib=no=0; nos=[]
for f in glob.glob('/verif/seeded/*/meta.json'):
    m=json.load(open(f)); tot+=1
    if m['caught']!='yes': no+=1; nos.append(m['id']); continue
    if m['breaks_property'] in m.get('caught_by',[]): own+=1
    else: sib+=1
maxm=max(int(f.split('-m')[1].split('/')[0]) for f in glob.glob('/verif/seeded/*-m*/meta.json'))
waves=9+(maxm-34)//4
text=f"""{waves} waves (m1-m3, m4-m6, m7-m10, then four per wave and property up to m{maxm}):
{tot} confirmed changes, {own+sib} caught by the quick tier ({own} by the check of the
property they target; {sib} by a sibling check where the change needs what only
the sibling has - a transport fault or cut (C16), a second overlapping
connection (C19), cancellation (C20), retained results (C17), a reset
differential (C18), a pong (C08), an RSV1 rule of the message state (C13)),
{no} not caught, by design ({', '.join(sorted(nos))}):
C16-m32 is `ws.ReadHeader` answering `io.EOF` for a cut inside a header with
no message open, which only has to be an error; C06-m69 makes a zero-length
copy followed by Flush send nothing, which is not demanded; C05-m65 wraps a
protocol error with %w, which errors.As and errors.Is - the way the checks
classify errors - still recognise. Waves 5-9 asked for
refactorings, option combinations, transport or scheduling conditions, broken
doc-comment guarantees, cleanup/resource slips, arithmetic and boundary slips,
ordering of side effects, option-field defaults and sibling entry points that
diverge; 27, 26, 23, 20 and 22 of their 52 changes were missed by the checks as
they stood (counting those that only a sibling caught as caught). Waves 10-20
(this session) asked for performance optimisations, hardening and clean-up
slips, two cooperating edits, state-carrying slips, API evolution, partial
progress and error paths, resource lifecycle, boundary arithmetic,
compatibility tolerance, shared state, callee-side changes in low-level
helpers, modernisation slips, new configuration knobs, observability hooks,
bug fixes gone wrong, ordering and representation changes, corners of the
API, less-travelled functions around the anchors, the library's use of its
dependencies' contracts, and behaviour keyed on the dynamic type, shape or
magnitude of what the caller passes, and the idioms of the package's own
README, doc comments and example server, and callbacks and hooks (what the
library's state is when it calls out, what a callback may do, what happens to
its result); 5, 6, 5, 9, 4, 2, 3, 8, 14, 2 and 7 were missed on first contact, the others were caught by the checks as they stood - many of the
later proposals repeat earlier ones, which is itself a sign of saturation, and
the themes of waves 17 and 18 (what io, bufio, bytes, net/http,
compress/flate, the pools and context promise and do not promise; fast paths
for particular argument types, nil versus empty, integer widths) show that a
new angle still finds gaps: frames of 4 GiB and more, a hundred control frames in one gap,
temporary errors that hand over bytes, destinations without ReadFrom,
`Connection: close` rejections, bare-LF responses, spare capacity of returned
slices; then in-memory standard readers as sources, helpers over bufio,
Reader values copied between messages, pings that are no UTF-8, deadline
errors that wrap a cause, headers with line folds, rejection bodies above
64 KiB, payloads compressing 1000:1. Two of the scenarios of wave 17 failed on the *unchanged* tree and became
defects 13 and 14 of §7. Every miss led to an
extension of a workload or fault mix (never to a loosened oracle); they are
named in the note column and in §8. Three misses of waves 3-9 and five of
waves 10-16 were oracle or harness faults of this work rather than gaps in
the workload (§8). One of the sixth wave's sub-agents met a hang on the
*unchanged* tree while building a demonstration; it became defect 12 of §7.
`tools/regress.sh` re-applies every kept change and re-runs the quick tier of
the checks named in `caught_by`; the last full pass is reported in §6.
"""
p='/verif/DESIGN.md'; s=open(p).read()
i=s.index('\n', s.index('then applied to `/repo`'))  # keep the preceding paragraph
a=s.index('Nine waves (m1-m3') if 'Nine waves (m1-m3' in s else s.index(' waves (m1-m3, m4-m6, m7-m10, then four per wave')-len(str(waves))
# find start of the paragraph line
a=s.rfind('\n\n', 0, a)+2
b=s.index('\n\n| id | property | change |', a)
s=s[:a]+text.rstrip('\n')+s[b:]
open(p,'w').write(s)
print('intro rewritten:', tot, own, sib, no, nos, 'waves', waves)
