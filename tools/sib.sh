#!/bin/bash
# tools/sib.sh <mutant-dir> <checks...>: apply to /repo, run the quick checks, revert; evidence restored.
D=$(realpath "$1"); shift
cd /verif
for c in "$@"; do cp evidence/$c.json /tmp/sib-$$-$c.json 2>/dev/null; done
git -C /repo apply "$D/patch.diff" || { echo "apply failed"; exit 1; }
for c in "$@"; do
  out=$(./check $c quick 2>&1); rc=$?
  echo "SIB $(basename $(dirname $(dirname $D)))/$(basename $D) $c exit=$rc"
  echo "$out" | grep -E '^(violation:|verif: harness)' | cut -c1-260 | head -3
done
for c in "$@"; do [ -f /tmp/sib-$$-$c.json ] && mv /tmp/sib-$$-$c.json evidence/$c.json; done
git -C /repo checkout -- . ; git -C /repo clean -fdq
