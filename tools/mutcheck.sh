#!/bin/bash
# tools/mutcheck.sh <mutant-dir> <prop> [checks...]
# 1. confirms the mutant in a scratch worktree (suite passes with it, demo
#    fails with it, demo passes without); 2. applies it to /repo, runs the given
#    checks (default: the property's quick check), reverts /repo.
set -u
export GOFLAGS=-mod=mod GOPROXY=off GOSUMDB=off
D=$(realpath "$1"); P=$2; shift 2
CHECKS=${*:-$P}
SCR=/tmp/mutv-$$
git -C /repo worktree add --detach "$SCR" HEAD >/dev/null 2>&1 || { echo "worktree failed"; exit 2; }
cleanup() { git -C /repo worktree remove --force "$SCR" >/dev/null 2>&1; }
trap cleanup EXIT
cd "$SCR"
demo=$(ls "$D"/*_test.go 2>/dev/null | head -1)
pkg=$(grep -m1 -oE '^package [a-z_]+' "$demo" | awk '{print $2}')
case "$pkg" in
  wsutil|wsutil_test) dir=wsutil ;;
  wsflate|wsflate_test) dir=wsflate ;;
  ws|ws_test) dir=. ;;
  tests|tests_test) dir=tests ;;
  *) dir=$(grep -hoE '(wsutil|wsflate|tests)/' "$D"/README.md | head -1); dir=${dir%/}; [ -z "$dir" ] && dir=. ;;
esac
cp "$demo" "$dir/zz_mut_demo_test.go"
run=$(grep -oE 'func (Test[A-Za-z0-9_]+)' "$dir/zz_mut_demo_test.go" | awk '{print $2}' | paste -sd'|')
clean_demo=FAIL; mut_demo=PASS; mut_suite=FAIL
go test -vet=off -count=1 -run "^($run)\$" ./$dir >/tmp/mutv-$$.log 2>&1 && clean_demo=PASS
git apply "$D/patch.diff" || { echo "RESULT $D apply=FAIL"; exit 1; }
go test -vet=off -count=1 -run "^($run)\$" ./$dir >>/tmp/mutv-$$.log 2>&1 || mut_demo=FAIL
rm -f "$dir/zz_mut_demo_test.go"
go test -vet=off -count=1 ./... >>/tmp/mutv-$$.log 2>&1 && mut_suite=PASS
echo "CONFIRM $(basename $(dirname $D))/$(basename $D): demo_on_clean=$clean_demo demo_with_change=$mut_demo suite_with_change=$mut_suite"
rm -f /tmp/mutv-$$.log
# Now the checks against /repo. Evidence written by runs against a changed
# tree is put back afterwards: committed evidence comes from the clean tree.
cd /verif
for c in $CHECKS; do cp evidence/$c.json /tmp/mutv-$$-$c.json 2>/dev/null; done
git -C /repo apply "$D/patch.diff" || { echo "apply to /repo failed"; exit 1; }
for c in $CHECKS; do
  out=$(./check $c quick 2>&1); rc=$?
  echo "CHECK $c exit=$rc $(echo "$out" | grep -c '^VIOLATION') violation line(s)"
  echo "$out" | grep -E '^(violation:|VIOLATION|KNOWN|verif: harness)' | cut -c1-300 | head -6
done
for c in $CHECKS; do [ -f /tmp/mutv-$$-$c.json ] && mv /tmp/mutv-$$-$c.json evidence/$c.json; done
git -C /repo checkout -- . ; git -C /repo clean -fdq
