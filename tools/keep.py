#!/usr/bin/env python3
"""tools/keep.py <seeded-id> <mutant-dir> <property> <caught: yes|no|pending> <checks that catch it> -- <one line: what it is> -- <what it needs to manifest>
Copies patch.diff, the demonstration and README.md to /verif/seeded/<id>/ and writes meta.json."""
import sys, os, shutil, json, glob
sid, src, prop, caught, checks = sys.argv[1:6]
rest = (" " + " ".join(sys.argv[6:])).split(" -- ")
what, needs = rest[1].strip(), rest[2].strip()
dst = '/verif/seeded/' + sid
os.makedirs(dst, exist_ok=True)
shutil.copy(os.path.join(src, 'patch.diff'), dst)
demos = []
for f in glob.glob(os.path.join(src, '*')):
    b = os.path.basename(f)
    if b.endswith('.go') or b == 'README.md':
        shutil.copy(f, dst)
        if b.endswith('.go'):
            demos.append(b)
meta = {
    'id': sid, 'breaks_property': prop, 'what': what, 'needs_to_manifest': needs,
    'demonstration': demos,
    'confirmed': 'tools/mutcheck.sh in a scratch worktree of /repo: demonstration passes on the clean tree, fails with the patch; the pinned suite (go test -vet=off -count=1 ./...) passes with the patch',
    'ran': 'git -C /repo apply patch.diff; ./check <id> quick; git -C /repo checkout -- .',
    'caught': caught, 'caught_by': checks.split(',') if checks != '-' else [],
    'source': 'independent sub-agent given only the property text and a scratch worktree',
}
json.dump(meta, open(os.path.join(dst, 'meta.json'), 'w'), indent=1)
print('kept', sid)
