#!/bin/bash
# tools/regress.sh [ids...]: run every kept seeded change against its property's quick check, in private
# copies of /verif (HEAD) and /repo (HEAD) so that /repo itself is never touched.
V=/tmp/vreg-$$; R=/tmp/rreg-$$
git -C /verif worktree add --detach $V HEAD >/dev/null 2>&1 || exit 2
git -C /repo worktree add --detach $R HEAD >/dev/null 2>&1 || exit 2
trap 'git -C /verif worktree remove --force $V >/dev/null 2>&1; git -C /repo worktree remove --force $R >/dev/null 2>&1' EXIT
cd $V
GOFLAGS=-mod=mod GOPROXY=off GOSUMDB=off GOTOOLCHAIN=local /opt/veriftools/go1.26.8/bin/go mod edit -replace github.com/gobwas/ws=$R
ids="$@"; [ -z "$ids" ] && ids=$(ls /verif/seeded | grep -- '-m')
ok=0; bad=0
for id in $ids; do
  d=/verif/seeded/$id
  prop=$(python3 -c "import json;print(json.load(open('$d/meta.json'))['breaks_property'])")
  by=$(python3 -c "import json;m=json.load(open('$d/meta.json'));print(' '.join(m.get('caught_by') or [m['breaks_property']]))")
  git -C $R apply $d/patch.diff 2>/dev/null || { echo "$id APPLY-FAILED"; continue; }
  res=""
  for c in $by; do
    ./check $c quick >/tmp/regress-$$.out 2>&1; rc=$?
    res="$res $c:rc=$rc"
    [ $rc -eq 1 ] && break
  done
  git -C $R checkout -- . ; git -C $R clean -fdq
  expected=$(python3 -c "import json;print(json.load(open('$d/meta.json'))['caught'])")
  if echo "$res" | grep -q "rc=1"; then ok=$((ok+1)); echo "$id caught ($res )"; else bad=$((bad+1)); echo "$id NOT-CAUGHT ($res ) expected=$expected"; fi
done
echo "regress: caught=$ok not_caught=$bad"
rm -f /tmp/regress-$$.out
