#!/bin/bash
# tools/sweep.sh <tier> <seed>... : run every check at the tier for each seed; one line per check.
# Under `vp run --with-repo` the snapshot of /repo ($VP_RUN_REPO) is used, so that edits to /repo
# made meanwhile (mutant evaluation) do not leak into the sweep.
tier=$1; shift
if [ -n "$VP_RUN_REPO" ] && [ "$(readlink -f .)" != "/verif" ]; then
  GOFLAGS=-mod=mod GOPROXY=off GOSUMDB=off GOTOOLCHAIN=local /opt/veriftools/go1.26.8/bin/go mod edit -replace github.com/gobwas/ws=$VP_RUN_REPO
  echo "sweep: using repo snapshot $VP_RUN_REPO ($(git -C $VP_RUN_REPO rev-parse --short HEAD))"
fi
for seed in "$@"; do
  for p in C04 C05 C06 C07 C08 C11 C12 C13 C16 C17 C18 C19 C20; do
    out=$(VERIF_SEED=$seed ./check $p $tier 2>&1); rc=$?
    echo "seed=$seed $p rc=$rc $(echo "$out" | grep -E '^verif: C' | cut -c1-170)"
    echo "$out" | grep -E '^(violation|VIOLATION|KNOWN|verif: (harness|worker|violation|replay))' | cut -c1-400 | head -5
  done
done
