#!/bin/bash
# tools/sweep.sh <tier> <seed>... : run every check at the tier for each seed; print one line per check.
tier=$1; shift
for seed in "$@"; do
  for p in C04 C05 C06 C07 C08 C11 C12 C13 C16 C17 C18 C19 C20; do
    out=$(VERIF_SEED=$seed ./check $p $tier 2>&1); rc=$?
    echo "seed=$seed $p rc=$rc $(echo "$out" | grep -E '^verif: C' | cut -c1-170)"
    echo "$out" | grep -E '^(violation|VIOLATION|KNOWN|verif: (harness|worker|violation))' | cut -c1-400 | head -5
  done
done
