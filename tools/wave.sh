#!/bin/bash
# tools/wave.sh <prop> <dir-with-_mut> [extra checks]: evaluate mutants 1..4 of a sub-agent worktree
P=$1; D=$2; shift 2
for k in 1 2 3 4; do
  [ -d "$D/_mut/$k" ] || continue
  /verif/tools/mutcheck.sh "$D/_mut/$k" $P "$@" 2>&1 | grep -E "^(CONFIRM|CHECK|violation|verif: harness)" | cut -c1-300 | head -4
done
