#!/bin/bash
# tools/sweep_props.sh <tier> "<props>" <seed>...: several properties, several seeds (see sweep_prop.sh).
tier=$1; props=$2; shift 2
for p in $props; do "$(dirname "$0")"/sweep_prop.sh $tier $p "$@"; done
