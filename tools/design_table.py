#!/usr/bin/env python3
"""Regenerate the table of DESIGN.md §11 from seeded/*/meta.json."""
import json, glob, re
rows = []
for f in sorted(glob.glob('/verif/seeded/*/meta.json'), key=lambda p: (p.split('/')[-2].split('-')[0], int(p.split('/')[-2].split('-m')[1]))):
    m = json.load(open(f))
    caught = ('yes (' + ','.join(m.get('caught_by', [])) + ')') if m['caught'] == 'yes' else m['caught']
    rows.append('| %s | %s | %s | %s | %s |' % (m['id'], m['breaks_property'], m['what'], caught, m.get('note', m.get('why_not_caught', ''))[:160]))
table = '| id | property | change | caught by quick tier | note |\n|---|---|---|---|---|\n' + '\n'.join(rows) + '\n'
p = '/verif/DESIGN.md'
s = open(p).read()
i = s.index('| id | property | change | caught by quick tier | note |')
j = s.find('\n\n', i)
s = s[:i] + table + (s[j+1:] if j > 0 else '')
open(p, 'w').write(s)
n = len(rows); c = sum(1 for r in rows if '| yes (' in r)
print('rows', n, 'caught', c)
