package main

import (
	"encoding/json"
	"os"
	"path/filepath"

	"verif/meta"
)

var engineKinds = map[string]string{
	"wire":  "single task: one endpoint of real ws code on a simulated transport (scripted peer, seeded segmentation, cuts, write failures, sim pool)",
	"hs":    "two tasks (real Dialer.Upgrade and real Upgrader/HTTPUpgrader) under a seeded task scheduler on simulated conns",
	"dial":  "Dialer.Dial inside a testing/synctest bubble: fake clock, quiescence, cancellation enumerated over every conn operation",
	"multi": "N client/server session pairs as tasks under a seeded race-detector-invisible scheduler, -race build, shared sim pool",
}

func writeManifest() error {
	m := map[string]interface{}{
		"version":   1,
		"setup_cmd": "cd /verif && ./check --build",
		"hooks": map[string]interface{}{
			"guard":            "verif",
			"enable":           "workers are built with `go test -c -tags verif` against /repo through `replace github.com/gobwas/ws => /repo`; no source hook exists in /repo, every seam is an argument the harness owns (net.Conn, pool module replacement, math/rand seed, synctest clock)",
			"baseline_off_cmd": "cd /repo && go test -vet=off -count=1 -timeout 25m ./...",
			"source_commits":   []string{},
			"add_only":         true,
		},
		"notes": "Deterministic simulation with fault injection only; see DESIGN.md. `./check <id> quick|thorough` rebuilds the workers from /repo's working tree, fans seeded runs over worker processes, minimises and replays any violation before reporting it. Exit 2 = harness/build trouble, never a violation.",
	}
	engines := map[string][]string{}
	var checks []interface{}
	for _, s := range meta.All {
		engines[s.Engine] = append(engines[s.Engine], s.ID)
		checks = append(checks, map[string]interface{}{
			"property_id":         s.ID,
			"quick_cmd":           "./check " + s.ID + " quick",
			"thorough_cmd":        "./check " + s.ID + " thorough",
			"evidence_file":       "evidence/" + s.ID + ".json",
			"replay_cmd_template": "./check --replay {path}",
			"engine":              s.Engine,
			"level_claimed": map[string]interface{}{
				"category":   s.Level,
				"text":       s.LevelText,
				"design_ref": s.DesignRef,
			},
			"level_note": s.LevelNote,
			"technique":  s.Technique,
		})
	}
	var engs []interface{}
	for _, name := range []string{"wire", "hs", "dial", "multi"} {
		if ids := engines[name]; len(ids) > 0 {
			engs = append(engs, map[string]interface{}{"name": name, "path": "/verif/" + name, "serves_properties": ids, "kind_free_text": engineKinds[name]})
		}
	}
	m["engines"] = engs
	m["checks"] = checks
	var na []interface{}
	for _, n := range meta.NotApplicable {
		if meta.Find(n.ID) == nil {
			na = append(na, map[string]string{"property_id": n.ID, "reason": n.Reason})
		}
	}
	m["not_applicable"] = na
	b, _ := json.MarshalIndent(m, "", " ")
	return os.WriteFile(filepath.Join(root, "MANIFEST.json"), append(b, '\n'), 0o644)
}
