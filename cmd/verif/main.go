// Command verif is the driver of the deterministic-simulation checks.
//
//	verif check <id> quick|thorough     run a property check
//	verif replay <file>                 re-run a replay file in a fresh process
//	verif selftest <id> [n]             determinism self-test of a property's engine
//
// Exit codes: 0 property held on everything explored (possibly with
// KNOWN-FINDING lines); 1 with a line "VIOLATION property=<id> replay=<path>";
// 2 build failure, watchdog, harness inconsistency or a failure that does not
// replay.
package main

import (
	"encoding/json"
	"fmt"
	"os"
	"os/exec"
	"path/filepath"
	"runtime"
	"sort"
	"strconv"
	"strings"
	"sync"
	"syscall"
	"time"

	"verif/meta"
)

// root is the framework directory (/verif, or a snapshot of it).
var root = func() string {
	if r := os.Getenv("VERIF_ROOT"); r != "" {
		return r
	}
	return "/verif"
}()

var buildDir = filepath.Join(root, ".build")

func main() {
	if len(os.Args) < 2 {
		usage()
	}
	switch os.Args[1] {
	case "check":
		if len(os.Args) < 3 {
			usage()
		}
		tier := os.Getenv("VERIF_TIER")
		if len(os.Args) >= 4 {
			tier = os.Args[3]
		}
		if tier != "thorough" {
			tier = "quick"
		}
		os.Exit(check(os.Args[2], tier))
	case "replay":
		if len(os.Args) < 3 {
			usage()
		}
		os.Exit(replay(os.Args[2]))
	case "selftest":
		if len(os.Args) < 3 {
			usage()
		}
		n := 200
		if len(os.Args) >= 4 {
			n, _ = strconv.Atoi(os.Args[3])
		}
		os.Exit(selftest(os.Args[2], n))
	case "manifest":
		if err := writeManifest(); err != nil {
			fmt.Fprintln(os.Stderr, err)
			os.Exit(2)
		}
	case "build":
		if err := buildWorkers(true); err != nil {
			fmt.Fprintln(os.Stderr, err)
			os.Exit(2)
		}
	default:
		usage()
	}
}

func usage() {
	fmt.Fprintln(os.Stderr, "usage: verif check <id> quick|thorough | verif replay <file> | verif selftest <id> [n] | verif build")
	os.Exit(2)
}

func goEnv() []string {
	env := os.Environ()
	env = append(env, "GOFLAGS=-mod=mod", "GOPROXY=off", "GOSUMDB=off", "GOTOOLCHAIN=local", "CGO_ENABLED=1")
	return env
}

// withLock serialises builds between concurrently running checks.
func withLock(f func() error) error {
	os.MkdirAll(buildDir, 0o755)
	lf, err := os.OpenFile(filepath.Join(buildDir, "lock"), os.O_CREATE|os.O_RDWR, 0o644)
	if err != nil {
		return err
	}
	defer lf.Close()
	if err := syscall.Flock(int(lf.Fd()), syscall.LOCK_EX); err != nil {
		return err
	}
	defer syscall.Flock(int(lf.Fd()), syscall.LOCK_UN)
	return f()
}

func goTool() string {
	if p, err := exec.LookPath("go1.26.8"); err == nil {
		return p
	}
	return "/opt/veriftools/go1.26.8/bin/go"
}

// buildWorkers rebuilds the worker binaries from /repo's current working tree
// (the go build cache makes this cheap when nothing changed).
func buildWorkers(race bool) error {
	return withLock(func() error {
		args := []string{"test", "-c", "-tags", "verif", "-o", filepath.Join(buildDir, "worker.test"), "./worker"}
		if out, err := runGo(args); err != nil {
			return fmt.Errorf("build failed:\n%s", out)
		}
		if race {
			args = []string{"test", "-c", "-race", "-tags", "verif", "-o", filepath.Join(buildDir, "worker_race.test"), "./worker"}
			if out, err := runGo(args); err != nil {
				return fmt.Errorf("race build failed:\n%s", out)
			}
		}
		return nil
	})
}

func runGo(args []string) (string, error) {
	cmd := exec.Command(goTool(), args...)
	cmd.Dir = root
	cmd.Env = goEnv()
	out, err := cmd.CombinedOutput()
	return string(out), err
}

// ---------------------------------------------------------------------------

type job struct {
	Mode    string   `json:"mode"`
	Prop    string   `json:"prop"`
	Tier    string   `json:"tier"`
	Base    uint64   `json:"base"`
	From    int      `json:"from"`
	To      int      `json:"to"`
	Out     string   `json:"out"`
	Tape    []uint32 `json:"tape,omitempty"`
	Class   string   `json:"class,omitempty"`
	MaxExec int      `json:"max_exec,omitempty"`
	MaxSec  int      `json:"max_sec,omitempty"`
	Samples int      `json:"samples,omitempty"`
	CapSec  int      `json:"cap_sec,omitempty"`
	Retries int      `json:"retries,omitempty"`
	HangSec int      `json:"hang_sec,omitempty"`
}

type violation struct {
	Prop   string `json:"property"`
	Rule   string `json:"rule"`
	Entry  string `json:"entry"`
	Detail string `json:"detail"`
}

func (v *violation) Class() string { return v.Prop + "/" + v.Rule + "/" + v.Entry }

type result struct {
	Viol        *violation       `json:"violation,omitempty"`
	Digest      uint64           `json:"digest"`
	Nontrivial  bool             `json:"nontrivial"`
	Probes      map[string]int64 `json:"probes,omitempty"`
	Faults      map[string]int64 `json:"faults,omitempty"`
	Steps       int64            `json:"steps"`
	FaultPoints int64            `json:"fault_points"`
	FakeNanos   int64            `json:"fake_nanos"`
	Sample      []string         `json:"sample,omitempty"`
	Tape        []uint32         `json:"tape,omitempty"`
	Decisions   []string         `json:"decisions,omitempty"`
	Internal    string           `json:"internal,omitempty"`
	RaceLog     string           `json:"race_log,omitempty"`
}

type found struct {
	Index  int     `json:"index"`
	Seed   uint64  `json:"seed"`
	Result *result `json:"result"`
}

type batchOut struct {
	Planned     int              `json:"planned"`
	Executed    int              `json:"executed"`
	Found       []found          `json:"found,omitempty"`
	Internal    []string         `json:"internal,omitempty"`
	Probes      map[string]int64 `json:"probes"`
	Faults      map[string]int64 `json:"faults"`
	Steps       int64            `json:"steps"`
	FaultPoints int64            `json:"fault_points"`
	FakeNanos   int64            `json:"fake_nanos"`
	Digests     []string         `json:"digests"`
	AllDigest   string           `json:"all_digest"`
	Samples     []*result        `json:"samples,omitempty"`
	WallS       float64          `json:"wall_s"`
	ClassCounts map[string]int   `json:"class_counts,omitempty"`
	Hang        *hangInfo        `json:"hang,omitempty"`
	RunDigests  []string         `json:"run_digests,omitempty"`
}

type hangInfo struct {
	Index int    `json:"index"`
	Seed  uint64 `json:"seed"`
	Sec   int    `json:"sec"`
	Stack string `json:"stack"`
}

type shrinkOut struct {
	Class    string  `json:"class"`
	Execs    int     `json:"execs"`
	FromLen  int     `json:"from_len"`
	ToLen    int     `json:"to_len"`
	Result   *result `json:"result"`
	Repro    bool    `json:"repro"`
	WallS    float64 `json:"wall_s"`
	GaveUp   string  `json:"gave_up,omitempty"`
	Internal string  `json:"internal,omitempty"`
}

var jobSeq struct {
	sync.Mutex
	n int
}

func outPath(tag string) string {
	jobSeq.Lock()
	jobSeq.n++
	n := jobSeq.n
	jobSeq.Unlock()
	dir := filepath.Join(buildDir, "out")
	os.MkdirAll(dir, 0o755)
	return filepath.Join(dir, fmt.Sprintf("%d-%s-%d.json", os.Getpid(), tag, n))
}

// runWorker runs one worker process and decodes its output into v. A process
// that dies, times out or writes nothing is a harness failure (exit 2).
func runWorker(spec *meta.Spec, j *job, timeout time.Duration, v interface{}, extraEnv ...string) (stderr string, err error) {
	bin := filepath.Join(buildDir, "worker.test")
	if spec.Race {
		bin = filepath.Join(buildDir, "worker_race.test")
	}
	j.Out = outPath(j.Mode)
	defer os.Remove(j.Out)
	js, _ := json.Marshal(j)
	jobFile := j.Out + ".job"
	if err := os.WriteFile(jobFile, js, 0o644); err != nil {
		return "", err
	}
	defer os.Remove(jobFile)
	cmd := exec.Command(bin, "-test.run", "^TestWorker$", "-test.timeout", "0", "-test.count", "1")
	cmd.Dir = root
	cmd.Env = append(os.Environ(), "VERIF_JOB_FILE="+jobFile)
	cmd.Env = append(cmd.Env, extraEnv...)
	{
		// One P per worker: real sync.Pools (per-P) then behave
		// deterministically; every engine executes serially anyway (16
		// workers give the parallelism).
		hasGMP := false
		for _, e := range extraEnv {
			if strings.HasPrefix(e, "GOMAXPROCS=") {
				hasGMP = true
			}
		}
		if !hasGMP {
			cmd.Env = append(cmd.Env, "GOMAXPROCS=1")
		}
	}
	if spec.Race {
		// Race reports go to a file the worker parses after every run.
		prefix := j.Out + ".race"
		cmd.Env = append(cmd.Env, "GORACE=log_path="+prefix+" halt_on_error=0 atexit_sleep_ms=0", "VERIF_RACE_LOG="+prefix)
		defer func() {
			if ms, _ := filepath.Glob(prefix + ".*"); ms != nil {
				for _, m := range ms {
					os.Remove(m)
				}
			}
		}()
	}
	var eb strings.Builder
	cmd.Stderr = &eb
	cmd.Stdout = &eb
	if err := cmd.Start(); err != nil {
		return "", err
	}
	done := make(chan error, 1)
	go func() { done <- cmd.Wait() }()
	select {
	case err = <-done:
	case <-time.After(timeout):
		cmd.Process.Kill()
		<-done
		return eb.String(), fmt.Errorf("watchdog: worker exceeded %v", timeout)
	}
	b, rerr := os.ReadFile(j.Out)
	if rerr != nil {
		return eb.String(), fmt.Errorf("worker produced no output (exit: %v)", err)
	}
	if uerr := json.Unmarshal(b, v); uerr != nil {
		return eb.String(), fmt.Errorf("worker output unreadable: %v", uerr)
	}
	return eb.String(), nil
}

// ---------------------------------------------------------------------------

type knownFinding struct {
	Property string `json:"property"`
	Key      string `json:"key"`             // violation class (property/rule/entry)
	Contains string `json:"detail_contains"` // optional discriminating detail
	Status   string `json:"status"`          // known | fixed
	Commit   string `json:"commit,omitempty"`
	What     string `json:"what"`
}

func loadKnown() []knownFinding {
	var f struct {
		Findings []knownFinding `json:"findings"`
	}
	b, err := os.ReadFile(filepath.Join(root, "known_findings.json"))
	if err != nil {
		return nil
	}
	json.Unmarshal(b, &f)
	return f.Findings
}

func matchKnown(ks []knownFinding, v *violation) *knownFinding {
	for i := range ks {
		k := &ks[i]
		if k.Status != "known" || k.Key != v.Class() {
			continue
		}
		if k.Contains != "" && !strings.Contains(v.Detail, k.Contains) {
			continue
		}
		return k
	}
	return nil
}

func seedEnv() uint64 {
	s := os.Getenv("VERIF_SEED")
	if s == "" {
		return 1
	}
	v, err := strconv.ParseUint(s, 10, 64)
	if err != nil {
		iv, _ := strconv.ParseInt(s, 10, 64)
		v = uint64(iv)
	}
	return v
}

func treeID() map[string]interface{} {
	head, _ := exec.Command("git", "-C", "/repo", "rev-parse", "HEAD").Output()
	st, _ := exec.Command("git", "-C", "/repo", "status", "--porcelain").Output()
	return map[string]interface{}{"head": strings.TrimSpace(string(head)), "dirty": len(strings.TrimSpace(string(st))) > 0}
}

type replayFile struct {
	Property  string                 `json:"property"`
	Engine    string                 `json:"engine"`
	Tier      string                 `json:"tier"`
	Seed      uint64                 `json:"seed"`
	BaseSeed  uint64                 `json:"base_seed"`
	Index     int                    `json:"run_index"`
	Class     string                 `json:"class"`
	Violation *violation             `json:"violation"`
	Digest    uint64                 `json:"digest"`
	Tape      []uint32               `json:"tape"`
	Decisions []string               `json:"decisions"`
	Sample    []string               `json:"sample"`
	Shrink    map[string]interface{} `json:"shrink"`
	Tree      map[string]interface{} `json:"tree"`
	Hang      bool                   `json:"hang,omitempty"` // replay = re-run run_index of base_seed and expect no progress again
	History   *historySpec           `json:"history,omitempty"`
}

// historySpec says that the violation needs the runs [From,To) of BaseSeed
// executed in one process, in order: the library carried state from one run
// (one connection) to a later one.
type historySpec struct {
	From int `json:"from"`
	To   int `json:"to"`
}

func check(id, tier string) int {
	start := time.Now()
	spec := meta.Find(id)
	if spec == nil {
		fmt.Fprintf(os.Stderr, "unknown or unclaimed property %s\n", id)
		return 2
	}
	base := seedEnv()
	fmt.Printf("verif: property=%s tier=%s engine=%s VERIF_SEED=%d\n", id, tier, spec.Engine, base)
	if err := buildWorkers(spec.Race); err != nil {
		fmt.Fprintln(os.Stderr, err)
		return 2
	}
	total, capSec := spec.Quick, spec.QuickCap
	if tier == "thorough" {
		total, capSec = spec.Thorough, spec.ThorCap
	}
	if capSec == 0 {
		capSec = 120
		if tier == "thorough" {
			capSec = 1500
		}
	}
	workers := spec.Workers
	if workers == 0 {
		workers = runtime.NumCPU()
	}
	if workers > total {
		workers = total
	}
	// Contiguous index ranges, one process per range.
	var outs []*batchOut
	var outsMu sync.Mutex
	errs := make([]error, workers)
	logs := make([]string, workers)
	var wg sync.WaitGroup
	per := (total + workers - 1) / workers
	perWorker = per
	for w := 0; w < workers; w++ {
		from, to := w*per, (w+1)*per
		if to > total {
			to = total
		}
		if from >= to {
			continue
		}
		wg.Add(1)
		go func(w, from, to int) {
			defer wg.Done()
			for from < to {
				j := &job{Mode: "batch", Prop: id, Tier: tier, Base: base, From: from, To: to, CapSec: capSec}
				if w == 0 {
					j.Samples = 3
				}
				o := &batchOut{}
				logs[w], errs[w] = runWorker(spec, j, time.Duration(capSec+180)*time.Second, o)
				if errs[w] != nil {
					return
				}
				if o.Hang == nil {
					outsMu.Lock()
					outs = append(outs, o)
					outsMu.Unlock()
					return
				}
				// A run made no progress for the monitor's span. Hung, or only
				// starved on an overloaded machine? Alone it tells: if it
				// finishes there, its results count and the batch goes on
				// behind it; if not, the hang is judged below (confirmHang).
				alone := &batchOut{}
				j1 := &job{Mode: "batch", Prop: id, Tier: tier, Base: base, From: o.Hang.Index, To: o.Hang.Index + 1, HangSec: o.Hang.Sec}
				if _, err := runWorker(spec, j1, time.Duration(o.Hang.Sec+60)*time.Second, alone); err != nil || alone.Hang != nil {
					outsMu.Lock()
					outs = append(outs, o)
					outsMu.Unlock()
					return
				}
				fmt.Fprintf(os.Stderr, "verif: note: run %d (seed %d) made no progress for %ds inside its batch but finishes when run alone (overloaded machine); going on behind it\n", o.Hang.Index, o.Hang.Seed, o.Hang.Sec)
				from = o.Hang.Index + 1
				o.Hang = nil
				o.Planned = o.Executed
				outsMu.Lock()
				outs = append(outs, o, alone)
				outsMu.Unlock()
			}
		}(w, from, to)
	}
	wg.Wait()
	for w, e := range errs {
		if e != nil {
			fmt.Fprintf(os.Stderr, "verif: worker %d failed: %v\n%s\n", w, e, tail(logs[w], 40))
			return 2
		}
	}
	agg := &batchOut{Probes: map[string]int64{}, Faults: map[string]int64{}, ClassCounts: map[string]int{}}
	distinct := map[string]struct{}{}
	var allFound []found
	for _, o := range outs {
		if o == nil {
			continue
		}
		agg.Planned += o.Planned
		agg.Executed += o.Executed
		agg.Steps += o.Steps
		agg.FaultPoints += o.FaultPoints
		agg.FakeNanos += o.FakeNanos
		for k, v := range o.Probes {
			agg.Probes[k] += v
		}
		for k, v := range o.Faults {
			agg.Faults[k] += v
		}
		for _, d := range o.Digests {
			distinct[d] = struct{}{}
		}
		for k, v := range o.ClassCounts {
			agg.ClassCounts[k] += v
		}
		agg.Internal = append(agg.Internal, o.Internal...)
		if o.Hang != nil && (agg.Hang == nil || o.Hang.Index < agg.Hang.Index) {
			agg.Hang = o.Hang
		}
		agg.Samples = append(agg.Samples, o.Samples...)
		allFound = append(allFound, o.Found...)
	}
	if len(agg.Internal) > 0 {
		msgs := agg.Internal
		if len(msgs) > 2 {
			msgs = msgs[:2]
		}
		for i := range msgs {
			if len(msgs[i]) > 1500 {
				msgs[i] = msgs[i][:1500] + " ..."
			}
		}
		fmt.Fprintf(os.Stderr, "verif: harness inconsistency in %d run(s) (not a violation):\n  %s\n", len(agg.Internal), strings.Join(msgs, "\n  "))
		return 2
	}
	// One representative (lowest run index) per violation class.
	sort.Slice(allFound, func(i, j int) bool { return allFound[i].Index < allFound[j].Index })
	byClass := map[string]found{}
	var classes []string
	for _, f := range allFound {
		c := f.Result.Viol.Class()
		if _, ok := byClass[c]; !ok {
			byClass[c] = f
			classes = append(classes, c)
		}
	}
	known := loadKnown()
	exit := 0
	nviol := 0
	var lines []string
	var unrepro []error
	if agg.Hang != nil {
		path, v, err := confirmHang(spec, tier, base, agg.Hang)
		if err != nil {
			fmt.Fprintf(os.Stderr, "verif: %v\n", err)
			return 2
		}
		classes = append(classes, v.Class())
		if k := matchKnown(known, v); k != nil {
			lines = append(lines, fmt.Sprintf("KNOWN-FINDING: property=%s %s [class %s, replay=%s]", spec.ID, k.What, v.Class(), path))
		} else {
			nviol++
			exit = 1
			fmt.Printf("violation: %s: %s\n", v.Class(), v.Detail)
			lines = append(lines, fmt.Sprintf("VIOLATION property=%s replay=%s", spec.ID, path))
		}
	}
	for ci, c := range classes {
		if ci >= 6 {
			break
		}
		f, ok := byClass[c]
		if !ok {
			continue // the hang class, handled above
		}
		path, rf, err := minimiseAndRecord(spec, tier, base, f)
		if err != nil {
			// Judged after the loop: next to a class that does replay this is
			// a remark (a changed tree may add outcomes that depend on what
			// the simulator does not decide); on its own it is exit 2.
			unrepro = append(unrepro, err)
			continue
		}
		if k := matchKnown(known, rf.Violation); k != nil {
			lines = append(lines, fmt.Sprintf("KNOWN-FINDING: property=%s %s [class %s, %d runs, replay=%s]", rf.Property, k.What, c, agg.ClassCounts[c], path))
			continue
		}
		nviol++
		exit = 1
		fmt.Printf("violation: %s: %s\n  runs in this class: %d; minimised tape %d draws; first seen at run %d (seed %d)\n",
			c, rf.Violation.Detail, agg.ClassCounts[c], len(rf.Tape), f.Index, f.Seed)
		// The line names the property whose check this is; a clause of
		// another property checked on the way (e.g. a reply checked inside a
		// reader run) is named in the class.
		lines = append(lines, fmt.Sprintf("VIOLATION property=%s replay=%s", spec.ID, path))
	}
	for _, e := range unrepro {
		if nviol == 0 {
			fmt.Fprintf(os.Stderr, "verif: %v\n", e)
		} else {
			fmt.Fprintf(os.Stderr, "verif: note (another class of this batch was confirmed and is reported): %v\n", e)
		}
	}
	if len(unrepro) > 0 && nviol == 0 {
		return 2
	}
	wall := time.Since(start).Seconds()
	if err := writeEvidence(spec, tier, base, agg, len(distinct), wall, nviol, classes); err != nil {
		fmt.Fprintf(os.Stderr, "verif: evidence: %v\n", err)
		return 2
	}
	fmt.Printf("verif: %s %s: %d/%d runs, %d distinct non-trivial, %d steps, %d fault points, %.1fs, %.0f runs/hour\n",
		id, tier, agg.Executed, agg.Planned, len(distinct), agg.Steps, agg.FaultPoints, wall, float64(agg.Executed)/wall*3600)
	for _, l := range lines {
		fmt.Println(l)
	}
	return exit
}

func tail(s string, n int) string {
	ls := strings.Split(strings.TrimRight(s, "\n"), "\n")
	if len(ls) > n {
		ls = ls[len(ls)-n:]
	}
	return strings.Join(ls, "\n")
}

// minimiseAndRecord shrinks a failing run, writes its replay file and verifies
// that the file reproduces class and digest in a fresh process.
// perWorker is the size of the contiguous run ranges of the current check.
var perWorker int

// poolEpoch mirrors worker.PoolEpoch (the driver does not link the engines).
const poolEpoch = 16

// historyReplay looks for the shortest window of consecutive runs ending at
// f.Index that reproduces class in a fresh process.
func historyReplay(spec *meta.Spec, tier string, base uint64, f found, class string, per int) (string, *replayFile, bool) {
	if per <= 0 {
		return "", nil, false
	}
	chunkStart := (f.Index / per) * per
	runWindow := func(from int) (*found, bool) {
		o := &batchOut{}
		j := &job{Mode: "batch", Prop: spec.ID, Tier: tier, Base: base, From: from, To: f.Index + 1}
		if _, err := runWorker(spec, j, 1200*time.Second, o); err != nil {
			return nil, false
		}
		for i := range o.Found {
			if o.Found[i].Result.Viol.Class() == class {
				return &o.Found[i], true
			}
		}
		return nil, false
	}
	var hit *found
	from := -1
	for w := 2; ; w *= 2 {
		// Windows start where the original batch had empty sync.Pools
		// (worker.PoolEpoch boundaries and the start of the worker's range).
		st := (f.Index + 1 - w) / poolEpoch * poolEpoch
		if st < chunkStart {
			st = chunkStart
		}
		if h, ok := runWindow(st); ok {
			// Twice, to be sure it is not chance.
			if _, ok2 := runWindow(st); ok2 {
				hit, from = h, st
			}
			break
		}
		if st == chunkStart {
			break
		}
	}
	if hit == nil {
		return "", nil, false
	}
	res := hit.Result
	rf := &replayFile{
		Property: res.Viol.Prop, Engine: spec.Engine, Tier: tier, Seed: hit.Seed, BaseSeed: base, Index: hit.Index,
		Class: class, Violation: res.Viol, Digest: res.Digest, Tape: res.Tape, Decisions: res.Decisions, Sample: res.Sample,
		History: &historySpec{From: from, To: f.Index + 1},
		Shrink:  map[string]interface{}{"note": "the violating run does not fail on its own tape alone: it needs the earlier runs of the window in the same process (state carried across connections); replay re-runs the window"},
		Tree:    treeID(),
	}
	dir := filepath.Join(root, "replays")
	os.MkdirAll(dir, 0o755)
	path := filepath.Join(dir, fmt.Sprintf("%s-%d-%s-history.json", spec.ID, hit.Seed, sanitize(res.Viol.Rule+"-"+res.Viol.Entry)))
	b, _ := json.MarshalIndent(rf, "", " ")
	if err := os.WriteFile(path, b, 0o644); err != nil {
		return "", nil, false
	}
	return path, rf, true
}

func minimiseAndRecord(spec *meta.Spec, tier string, base uint64, f found) (string, *replayFile, error) {
	class := f.Result.Viol.Class()
	so := &shrinkOut{}
	raceNoRecur := false
	if strings.Contains(class, "/data_race/") {
		// The race detector reports one stack pair once per process, so a
		// race cannot be re-observed (hence not shrunk) inside one worker:
		// the original tape is replayed in fresh processes instead.
		var rr *result
		for try := 0; try < 3 && !so.Repro; try++ {
			rr = &result{}
			if log, err := runWorker(spec, &job{Mode: "replay", Prop: spec.ID, Tier: tier, Tape: f.Result.Tape}, 300*time.Second, rr); err != nil {
				return "", nil, fmt.Errorf("replay of %s failed: %v\n%s", class, err, tail(log, 20))
			}
			so.Repro = rr.Viol != nil && rr.Viol.Class() == class
			so.Execs++
		}
		so.Result, so.FromLen, so.ToLen, so.GaveUp = rr, len(f.Result.Tape), len(f.Result.Tape), "not shrunk: race reports are once-per-process"
		if !so.Repro {
			// The schedule replays exactly, but whether the detector still
			// holds the earlier access in its bounded shadow history depends on
			// the process' memory layout. The detector has no false positives:
			// the report stands, the replay file says it did not recur.
			so.Repro, so.Result, raceNoRecur = true, f.Result, true
			so.GaveUp = "race report did not recur in 3 fresh replays (bounded shadow history); original report kept"
		}
	} else {
		sj := &job{Mode: "shrink", Prop: spec.ID, Tier: tier, Tape: f.Result.Tape, Class: class, MaxExec: 2000, MaxSec: 60, Retries: retriesFor(spec, class)}
		if log, err := runWorker(spec, sj, 240*time.Second, so); err != nil {
			return "", nil, fmt.Errorf("shrink of %s failed: %v\n%s", class, err, tail(log, 20))
		}
	}
	if (!so.Repro || so.Result == nil) && !strings.Contains(class, "/data_race/") {
		// Not reproducible from its own tape alone: maybe the library carried
		// state over from earlier runs of the same process (a package-level
		// cache, a pooled object). Replay a window of runs ending at this one.
		if path, rf, ok := historyReplay(spec, tier, base, f, class, perWorker); ok {
			return path, rf, nil
		}
	}
	if !so.Repro || so.Result == nil {
		return "", nil, fmt.Errorf("violation %s (run %d, seed %d) did not reproduce when its tape was replayed: %s — reported as harness failure, not as a violation", class, f.Index, f.Seed, so.GaveUp)
	}
	res := so.Result
	rf := &replayFile{
		Property: res.Viol.Prop, Engine: spec.Engine, Tier: tier, Seed: f.Seed, BaseSeed: base, Index: f.Index,
		Class: class, Violation: res.Viol, Digest: res.Digest, Tape: res.Tape, Decisions: res.Decisions, Sample: res.Sample,
		Shrink: map[string]interface{}{"from_draws": so.FromLen, "to_draws": so.ToLen, "executions": so.Execs, "wall_s": so.WallS, "stopped": so.GaveUp},
		Tree:   treeID(),
	}
	rf.Violation.Prop = res.Viol.Prop
	dir := filepath.Join(root, "replays")
	os.MkdirAll(dir, 0o755)
	path := filepath.Join(dir, fmt.Sprintf("%s-%d-%s.json", spec.ID, f.Seed, sanitize(res.Viol.Rule+"-"+res.Viol.Entry)))
	b, _ := json.MarshalIndent(rf, "", " ")
	if err := os.WriteFile(path, b, 0o644); err != nil {
		return "", nil, err
	}
	if strings.Contains(class, "/data_race/") {
		// Reproduced above in a fresh process, or kept on the strength of the
		// detector's report; no further double replay (the detector's memory
		// is bounded, a recurrence is not guaranteed every time).
		rf.Shrink["exact_replay"] = !raceNoRecur
		b, _ := json.MarshalIndent(rf, "", " ")
		os.WriteFile(path, b, 0o644)
		return path, rf, nil
	}
	// Verify: fresh process, same class, same digest.
	inexact := false
	for i := 0; i < 2; i++ {
		rr := &result{}
		if log, err := runWorker(spec, &job{Mode: "replay", Prop: spec.ID, Tier: tier, Tape: rf.Tape, Class: class, Retries: retriesFor(spec, class)}, 240*time.Second, rr); err != nil {
			return "", nil, fmt.Errorf("replay verification failed: %v\n%s", err, tail(log, 20))
		}
		if retriesFor(spec, class) > 0 && rr.Viol != nil && rr.Viol.Class() == class {
			// Outcome decided by the runtime's select choice (DESIGN §4 C20,
			// §9): the class recurs, the digest need not.
			rf.Shrink["exact_replay"] = false
			continue
		}
		if rr.Viol != nil && rr.Viol.Prop == rf.Violation.Prop && (rr.Viol.Class() != class || rr.Digest != rf.Digest) {
			// The fresh process violates the same property again, but not along
			// the same trace: the code under test does not behave as a function
			// of the tape (a map iterated, a random source of its own). That is
			// a finding about the code, not a failure of the harness; the replay
			// file says that it is not digest-exact.
			rf.Shrink["exact_replay"] = false
			rf.Shrink["replay_note"] = fmt.Sprintf("a fresh process violated %s again as %s (digest %x, recorded %x): the behaviour under test is not a function of the seed", rf.Violation.Prop, rr.Viol.Class(), rr.Digest, rf.Digest)
			inexact = true
			continue
		}
		if rr.Viol == nil || rr.Viol.Class() != class || rr.Digest != rf.Digest {
			return "", nil, fmt.Errorf("replay of %s is not exact (class %v digest %x vs %x): harness failure, not reported as violation", path, rr.Viol, rr.Digest, rf.Digest)
		}
	}
	if inexact {
		b, _ := json.MarshalIndent(rf, "", " ")
		os.WriteFile(path, b, 0o644)
	}
	return path, rf, nil
}

// confirmHang re-runs a run that made no progress in two fresh processes; it
// is a violation only if both hang again and the library is on the stack.
func confirmHang(spec *meta.Spec, tier string, base uint64, h *hangInfo) (string, *violation, error) {
	for i := 0; i < 2; i++ {
		o := &batchOut{}
		j := &job{Mode: "batch", Prop: spec.ID, Tier: tier, Base: base, From: h.Index, To: h.Index + 1, HangSec: h.Sec}
		if _, err := runWorker(spec, j, time.Duration(h.Sec+60)*time.Second, o); err != nil {
			return "", nil, fmt.Errorf("run %d (seed %d) made no progress for %ds, but re-running it failed: %v - harness failure, not a violation", h.Index, h.Seed, h.Sec, err)
		}
		if o.Hang == nil {
			return "", nil, fmt.Errorf("run %d (seed %d) made no progress for %ds once but finished when re-run alone (overloaded machine?) - harness failure, not a violation", h.Index, h.Seed, h.Sec)
		}
		h = o.Hang
	}
	site := hangSite(h.Stack)
	if site == "" {
		return "", nil, fmt.Errorf("run %d (seed %d) hangs reproducibly but no goroutine is inside github.com/gobwas/ws - harness failure, not a violation\n%s", h.Index, h.Seed, tail(h.Stack, 30))
	}
	v := &violation{Prop: spec.ID, Rule: "hang_no_progress", Entry: spec.Engine,
		Detail: fmt.Sprintf("run %d (seed %d) makes no progress (no transport operation, no return) for %ds of wall clock, reproducibly in 3 fresh processes; spinning in %s", h.Index, h.Seed, h.Sec, site)}
	rf := &replayFile{Property: spec.ID, Engine: spec.Engine, Tier: tier, Seed: h.Seed, BaseSeed: base, Index: h.Index, Class: v.Class(), Violation: v,
		Hang: true, Sample: strings.Split(tail(h.Stack, 60), "\n"), Tree: treeID(), Shrink: map[string]interface{}{"note": "a hang has no tape: the replay re-runs run_index of base_seed"}}
	dir := filepath.Join(root, "replays")
	os.MkdirAll(dir, 0o755)
	path := filepath.Join(dir, fmt.Sprintf("%s-%d-hang.json", spec.ID, h.Seed))
	b, _ := json.MarshalIndent(rf, "", " ")
	if err := os.WriteFile(path, b, 0o644); err != nil {
		return "", nil, err
	}
	return path, v, nil
}

// hangSite finds the innermost library frame of a goroutine that is running
// (not parked) in the dump.
func hangSite(stack string) string {
	for _, g := range strings.Split(stack, "\n\n") {
		// ("[running]", or inside a synctest bubble "[running, synctest bubble 7]")
		if !strings.Contains(g, "[running") && !strings.Contains(g, "[runnable") {
			continue
		}
		for _, l := range strings.Split(g, "\n") {
			if strings.HasPrefix(l, "github.com/gobwas/ws") {
				if i := strings.LastIndex(l, "("); i > 0 {
					l = l[:i]
				}
				return l
			}
		}
	}
	// Nobody runs: a goroutine waiting for a lock inside the library (a lock
	// is not something a fake clock or a closing peer ever releases).
	for _, g := range strings.Split(stack, "\n\n") {
		if !strings.Contains(g, "[sync.Mutex.Lock") && !strings.Contains(g, "[sync.RWMutex") && !strings.Contains(g, "[semacquire") {
			continue
		}
		for _, l := range strings.Split(g, "\n") {
			if strings.HasPrefix(l, "github.com/gobwas/ws") {
				if i := strings.LastIndex(l, "("); i > 0 {
					l = l[:i]
				}
				return l + " (waiting for a lock)"
			}
		}
	}
	// Nobody runs and nobody waits for a lock: a goroutine parked inside the
	// library for good (a read on a real socket nothing will ever end).
	for _, g := range strings.Split(stack, "\n\n") {
		if !strings.Contains(g, "[IO wait") && !strings.Contains(g, "[select") && !strings.Contains(g, "[chan ") {
			continue
		}
		for _, l := range strings.Split(g, "\n") {
			if strings.HasPrefix(l, "github.com/gobwas/ws") {
				if i := strings.LastIndex(l, "("); i > 0 {
					l = l[:i]
				}
				return l + " (parked)"
			}
		}
	}
	return ""
}

// retriesFor says how often a replay may be repeated until the class recurs.
// Only the two C20 classes that mean "Dial no longer waits for its watcher
// goroutine" get retries: what the abandoned goroutine then does depends on
// the runtime's choice between two ready select cases, which no seed decides.
func retriesFor(spec *meta.Spec, class string) int {
	if spec.Engine == "dial" && (strings.Contains(class, "conn_touched_after_return") || strings.Contains(class, "watcher_goroutine_alive")) {
		return 48
	}
	if spec.Engine == "dial" {
		// On the unchanged tree every enumerated plan replays exactly (the
		// self-test checks digests); a changed Dial may reach the select
		// between quit and ctx.Done() with both ready inside a forced plan,
		// and then only the class recurs.
		return 8
	}
	if spec.Engine == "multi" {
		// The race build's sync.Pool drops one Put in four at the runtime's
		// whim (sync.Pool.Put under race.Enabled): a change that adds a real
		// sync.Pool behaves the same way in most executions but not in all.
		// The unchanged tree has no sync.Pool on these paths and replays
		// exactly (self-test); here the class must recur.
		return 8
	}
	return 0
}

func sanitize(s string) string {
	var b strings.Builder
	for _, c := range s {
		if (c >= 'a' && c <= 'z') || (c >= 'A' && c <= 'Z') || (c >= '0' && c <= '9') || c == '-' || c == '_' {
			b.WriteRune(c)
		} else {
			b.WriteByte('_')
		}
	}
	return b.String()
}

func replay(path string) int {
	b, err := os.ReadFile(path)
	if err != nil {
		fmt.Fprintln(os.Stderr, err)
		return 2
	}
	var rf replayFile
	if err := json.Unmarshal(b, &rf); err != nil {
		fmt.Fprintln(os.Stderr, err)
		return 2
	}
	if rf.History != nil {
		id := rf.Class
		if i := strings.Index(id, "/"); i > 0 {
			id = id[:i]
		}
		if b := filepath.Base(path); strings.Index(b, "-") > 0 && meta.Find(b[:strings.Index(b, "-")]) != nil {
			id = b[:strings.Index(b, "-")]
		}
		spec := meta.Find(id)
		if spec == nil {
			fmt.Fprintln(os.Stderr, "unknown property", id)
			return 2
		}
		if err := buildWorkers(spec.Race); err != nil {
			fmt.Fprintln(os.Stderr, err)
			return 2
		}
		o := &batchOut{}
		j := &job{Mode: "batch", Prop: spec.ID, Tier: rf.Tier, Base: rf.BaseSeed, From: rf.History.From, To: rf.History.To}
		if _, err := runWorker(spec, j, 1200*time.Second, o); err != nil {
			fmt.Fprintln(os.Stderr, "replay failed:", err)
			return 2
		}
		for _, f := range o.Found {
			if f.Result.Viol.Class() == rf.Class {
				fmt.Printf("replay of %s (runs %d..%d in one process): %s: %s\nVIOLATION property=%s replay=%s\n", path, rf.History.From, rf.History.To-1, rf.Class, f.Result.Viol.Detail, spec.ID, path)
				return 1
			}
		}
		fmt.Printf("replay of %s (runs %d..%d in one process): no violation of class %s on this tree\n", path, rf.History.From, rf.History.To-1, rf.Class)
		return 0
	}
	if rf.Hang {
		spec := meta.Find(rf.Property)
		if spec == nil {
			fmt.Fprintln(os.Stderr, "unknown property", rf.Property)
			return 2
		}
		if err := buildWorkers(spec.Race); err != nil {
			fmt.Fprintln(os.Stderr, err)
			return 2
		}
		o := &batchOut{}
		j := &job{Mode: "batch", Prop: spec.ID, Tier: rf.Tier, Base: rf.BaseSeed, From: rf.Index, To: rf.Index + 1, HangSec: 60}
		if _, err := runWorker(spec, j, 150*time.Second, o); err != nil {
			fmt.Fprintln(os.Stderr, "replay failed:", err)
			return 2
		}
		if o.Hang == nil {
			fmt.Printf("replay of %s: run %d finishes on this tree\n", path, rf.Index)
			return 0
		}
		fmt.Printf("replay of %s: run %d makes no progress again (%s)\nVIOLATION property=%s replay=%s\n", path, rf.Index, hangSite(o.Hang.Stack), spec.ID, path)
		return 1
	}
	id := rf.Class
	if i := strings.Index(id, "/"); i > 0 {
		id = id[:i]
	}
	// The check that produced the file may belong to another property than
	// the violated one (e.g. a C08 clause checked inside a C04 run); the file
	// name carries the check id.
	base := filepath.Base(path)
	if i := strings.Index(base, "-"); i > 0 && meta.Find(base[:i]) != nil {
		id = base[:i]
	}
	spec := meta.Find(id)
	if spec == nil {
		fmt.Fprintf(os.Stderr, "unknown property %s\n", id)
		return 2
	}
	if err := buildWorkers(spec.Race); err != nil {
		fmt.Fprintln(os.Stderr, err)
		return 2
	}
	rr := &result{}
	if log, err := runWorker(spec, &job{Mode: "replay", Prop: spec.ID, Tier: rf.Tier, Tape: rf.Tape, Class: rf.Class, Retries: retriesFor(spec, rf.Class)}, 600*time.Second, rr); err != nil {
		fmt.Fprintf(os.Stderr, "replay failed: %v\n%s\n", err, tail(log, 30))
		return 2
	}
	for _, l := range rr.Sample {
		fmt.Println("  ", l)
	}
	if rr.Internal != "" {
		fmt.Fprintln(os.Stderr, "harness inconsistency:", rr.Internal)
		return 2
	}
	if rr.Viol == nil {
		fmt.Printf("replay of %s: no violation on this tree (digest %x, recorded %x)\n", path, rr.Digest, rf.Digest)
		return 0
	}
	fmt.Printf("replay of %s: %s: %s (digest %x, recorded %x, same class: %v)\n", path, rr.Viol.Class(), rr.Viol.Detail, rr.Digest, rf.Digest, rr.Viol.Class() == rf.Class)
	fmt.Printf("VIOLATION property=%s replay=%s\n", spec.ID, path)
	return 1
}

// selftest runs the same seeds in several fresh processes at several
// GOMAXPROCS values and diffs the per-batch digest.
func selftest(id string, n int) int {
	spec := meta.Find(id)
	if spec == nil {
		fmt.Fprintln(os.Stderr, "unknown property")
		return 2
	}
	if err := buildWorkers(spec.Race); err != nil {
		fmt.Fprintln(os.Stderr, err)
		return 2
	}
	base := seedEnv()
	type key struct{ chunk int }
	ref := map[int]string{}
	bad := 0
	procs := 0
	chunks := 8
	per := (n + chunks - 1) / chunks
	var mu sync.Mutex
	var wg sync.WaitGroup
	sem := make(chan struct{}, runtime.NumCPU())
	for _, gmp := range []string{"1", "4", "16"} {
		for rep := 0; rep < 3; rep++ {
			for c := 0; c < chunks; c++ {
				wg.Add(1)
				sem <- struct{}{}
				go func(gmp string, c int) {
					defer wg.Done()
					defer func() { <-sem }()
					o := &batchOut{}
					j := &job{Mode: "batch", Prop: id, Tier: "quick", Base: base, From: c * per, To: (c + 1) * per}
					_, err := runWorker(spec, j, 900*time.Second, o, "GOMAXPROCS="+gmp)
					mu.Lock()
					defer mu.Unlock()
					procs++
					if err != nil {
						fmt.Fprintln(os.Stderr, "worker:", err)
						bad++
						return
					}
					sig := o.AllDigest + fmt.Sprint(len(o.Found), o.Steps)
					if prev, ok := ref[c]; ok && prev != sig {
						fmt.Printf("NONDETERMINISM chunk %d GOMAXPROCS=%s: %s vs %s\n", c, gmp, sig, prev)
						bad++
					} else {
						ref[c] = sig
					}
				}(gmp, c)
			}
		}
	}
	wg.Wait()
	// Isolation: a run must not depend on what its process executed before
	// it. The same indices, once in the chunks above (one long process each)
	// and once in many short processes of 7 runs whose boundaries fall
	// elsewhere; per-run digest and step count must agree.
	perRun := func(from, to int) (map[int]string, error) {
		o := &batchOut{}
		j := &job{Mode: "batch", Prop: id, Tier: "quick", Base: base, From: from, To: to}
		if _, err := runWorker(spec, j, 900*time.Second, o, "VERIF_DEBUG_DIGESTS=1"); err != nil {
			return nil, err
		}
		m := map[int]string{}
		for _, l := range o.RunDigests {
			var i int
			var rest string
			if k := strings.IndexByte(l, ':'); k > 0 {
				fmt.Sscan(l[:k], &i)
				rest = l[k+1:]
			}
			m[i] = rest
		}
		return m, nil
	}
	long := map[int]string{}
	short := map[int]string{}
	isoProcs := 0
	collect := func(dst map[int]string, step int) {
		var wg2 sync.WaitGroup
		for from := 0; from < chunks*per; from += step {
			wg2.Add(1)
			sem <- struct{}{}
			go func(from int) {
				defer wg2.Done()
				defer func() { <-sem }()
				m, err := perRun(from, from+step)
				mu.Lock()
				defer mu.Unlock()
				isoProcs++
				if err != nil {
					fmt.Fprintln(os.Stderr, "worker:", err)
					bad++
					return
				}
				for i, v := range m {
					dst[i] = v
				}
			}(from)
		}
		wg2.Wait()
	}
	collect(long, per)
	collect(short, 7)
	iso := 0
	for i := 0; i < chunks*per; i++ {
		if a, b := long[i], short[i]; a != b {
			if iso < 5 {
				fmt.Printf("ORDER DEPENDENCE run %d: %q in a process of %d runs, %q in a process of 7\n", i, a, per, b)
			}
			iso++
		}
	}
	bad += iso
	fmt.Printf("selftest %s: %d seeds x %d processes (GOMAXPROCS 1/4/16 x 3), mismatches: %d; isolation: %d runs compared between processes of %d and of 7 runs (%d processes), %d differ\n", id, n, procs, bad-iso, chunks*per, per, isoProcs, iso)
	if bad > 0 {
		return 2
	}
	return 0
}

func writeEvidence(spec *meta.Spec, tier string, base uint64, agg *batchOut, distinct int, wall float64, nviol int, classes []string) error {
	var samples []interface{}
	for _, s := range agg.Samples {
		if len(samples) >= 3 {
			break
		}
		samples = append(samples, map[string]interface{}{"case": s.Sample, "first_decisions": firstN(s.Decisions, 40), "trace_digest": fmt.Sprintf("%x", s.Digest)})
	}
	if len(samples) == 0 {
		samples = append(samples, map[string]interface{}{"note": "no clean sample run in this batch"})
	}
	cov := map[string]interface{}{
		"evaluations":         agg.Executed,
		"distinct_nontrivial": distinct,
		"rule":                spec.Rule,
		"samples":             samples,
		"runs_per_hour":       int64(float64(agg.Executed) / wall * 3600),
		"seeds":               fmt.Sprintf("VERIF_SEED=%d; run i uses splitmix(base, property, i) for i in [0,%d)", base, agg.Planned),
		"steps":               agg.Steps,
		"fake_seconds":        float64(agg.FakeNanos) / 1e9,
		"faults_fired":        agg.Faults,
		"probes":              agg.Probes,
		"planned_vs_executed": map[string]int{"planned": agg.Planned, "executed": agg.Executed},
		"components_real":     meta.Real,
		"components_stub":     spec.Stub,
		"violation_classes":   append([]string{}, classes...),
	}
	if spec.Level == "fault_enumeration" {
		cov["fault_points_enumerated"] = agg.FaultPoints
		cov["exhaustive_per_workload"] = true
	}
	ev := map[string]interface{}{
		"property_id": spec.ID,
		"tier":        tier,
		"seed":        int64(base),
		"level":       spec.Level,
		"coverage":    cov,
		"assumptions": spec.Assume,
		"wall_s":      wall,
		"violations":  nviol,
	}
	b, _ := json.MarshalIndent(ev, "", " ")
	dir := filepath.Join(root, "evidence")
	os.MkdirAll(dir, 0o755)
	return os.WriteFile(filepath.Join(dir, spec.ID+".json"), b, 0o644)
}

func firstN(s []string, n int) []string {
	if len(s) > n {
		return s[:n]
	}
	return s
}
