// Package props maps property ids to their simulation runners.
package props

import (
	"verif/dial"
	"verif/eng"
	"verif/meta"
	"verif/multi"
	"verif/wire"
)

// Spec is a property's metadata plus its runner.
type Spec struct {
	*meta.Spec
	Run eng.Runner
}

var runners = map[string]eng.Runner{
	"C04": wire.C04,
	"C05": wire.C05,
	"C06": wire.C06,
	"C07": wire.C07,
	"C08": wire.C08,
	"C11": wire.C11,
	"C12": wire.C12,
	"C13": wire.C13,
	"C16": wire.C16,
	"C17": wire.C17,
	"C18": wire.C18,
	"C19": multi.C19,
	"C20": dial.C20,
}

// Find returns the runnable spec of a property.
func Find(id string) *Spec {
	m := meta.Find(id)
	r := runners[id]
	if m == nil || r == nil {
		return nil
	}
	return &Spec{m, r}
}
