// Package dial is the engine for C20: ws.Dialer.Dial runs inside a
// testing/synctest bubble (fake clock, quiescence detection) against a
// simulated, deadline-honouring net.Conn whose peer is driven by in-bubble
// timers. Scenarios are sampled from the tape; for each scenario the instant
// of cancellation is enumerated over every conn operation x phase (DESIGN §4
// C20).
package dial

import (
	"bufio"
	"context"
	"crypto/sha1"
	"crypto/tls"
	"encoding/base64"
	"errors"
	"fmt"
	"io"
	"net"
	"net/http"
	"runtime"
	"runtime/debug"
	"strings"
	"sync"
	"sync/atomic"
	"syscall"
	"testing"
	"testing/synctest"
	"time"

	"github.com/gobwas/httphead"
	"github.com/gobwas/ws"
	"github.com/gobwas/ws/wsutil"

	"verif/eng"
	"verif/sim"
)

// T is the worker's *testing.T (synctest.Test needs one).
var T *testing.T

// ---------------------------------------------------------------------------
// Simulated conn

type timeoutError struct{}

func (timeoutError) Error() string   { return "sim: i/o timeout" }
func (timeoutError) Timeout() bool   { return true }
func (timeoutError) Temporary() bool { return true }

// wrappedTimeout is a deadline error as layered transports (tunnels,
// multiplexers) report it: a net.Error that says Timeout, wrapping a plain
// cause that says nothing of the kind.
type wrappedTimeout struct{ cause error }

func (w wrappedTimeout) Error() string { return "sim: i/o timeout: " + w.cause.Error() }
func (wrappedTimeout) Timeout() bool   { return true }
func (wrappedTimeout) Temporary() bool { return true }
func (w wrappedTimeout) Unwrap() error { return w.cause }

var errStreamDeadline = errors.New("stream deadline reached")

func (c *Conn) timeoutErr() error {
	if c.errWraps {
		return wrappedTimeout{errStreamDeadline}
	}
	return timeoutError{}
}

var errSimClosed = errors.New("sim: use of closed connection")

// Event is one call observed on the conn.
type Event struct {
	At   time.Duration
	Op   string // read write setdeadline setreaddeadline setwritedeadline close
	N    int
	Err  string
	Zero bool // SetDeadline: the zero time was set
	Past bool // SetDeadline: a time in the past was set
}

// Conn is the deadline-honouring simulated connection.
type Conn struct {
	mu     sync.Mutex
	cond   *sync.Cond
	start  time.Time
	in     []byte // bytes readable by the library
	eof    bool
	closed bool
	rdl    time.Time
	wdl    time.Time
	rtimer *time.Timer
	wtimer *time.Timer

	out         []byte // bytes written by the library
	writeBlocks bool   // writes never drain (until unblockAt)
	blockAfter  int    // > 0: writes drain until this many bytes were taken, then never (the peer's window is full)
	onRequest   func() // called once when the request head is complete
	reqDone     bool

	Events []Event
	ops    int // number of Read/Write calls started
	// hook is called at "enter" and "exit" (success only) of every Read/Write.
	hook func(k int, op, phase string)

	segMax   int    // max bytes per Read (0: all)
	errWraps bool   // deadline errors wrap a plain cause
	dlHook   func() // called before a deadline call of the dialing goroutine takes effect
	owned    bool   // a layer above keeps the deadlines (ownDLConn)
}

func newConn(start time.Time) *Conn {
	c := &Conn{start: start}
	c.cond = sync.NewCond(&c.mu)
	return c
}

func (c *Conn) log(e Event) {
	e.At = time.Since(c.start)
	c.Events = append(c.Events, e)
}

func errName(err error) string {
	if err == nil {
		return ""
	}
	return err.Error()
}

func (c *Conn) Read(p []byte) (int, error) {
	c.mu.Lock()
	k := c.ops
	c.ops++
	hook := c.hook
	c.mu.Unlock()
	if hook != nil {
		hook(k, "read", "enter")
	}
	c.mu.Lock()
	for {
		var err error
		switch {
		case c.closed:
			err = errSimClosed
		case !c.rdl.IsZero() && !time.Now().Before(c.rdl):
			err = c.timeoutErr()
		case len(c.in) > 0:
			n := len(c.in)
			if n > len(p) {
				n = len(p)
			}
			if c.segMax > 0 && n > c.segMax {
				n = c.segMax
			}
			copy(p, c.in[:n])
			c.in = c.in[n:]
			c.log(Event{Op: "read", N: n})
			c.mu.Unlock()
			if hook != nil {
				hook(k, "read", "exit")
			}
			return n, nil
		case c.eof:
			c.log(Event{Op: "read", Err: "EOF"})
			c.mu.Unlock()
			return 0, io.EOF
		}
		if err != nil {
			c.log(Event{Op: "read", Err: errName(err)})
			c.mu.Unlock()
			return 0, err
		}
		c.cond.Wait()
	}
}

func (c *Conn) Write(p []byte) (int, error) {
	c.mu.Lock()
	k := c.ops
	c.ops++
	hook := c.hook
	c.mu.Unlock()
	if hook != nil {
		hook(k, "write", "enter")
	}
	c.mu.Lock()
	taken := 0 // bytes of p the peer took before its window was full (reported together with the error)
	for {
		var err error
		if c.blockAfter > 0 && !c.writeBlocks && !c.closed && len(c.out) < c.blockAfter && len(c.out)+len(p) > c.blockAfter {
			// The peer's window takes a part of this write; the rest waits.
			k := c.blockAfter - len(c.out)
			c.out = append(c.out, p[:k]...)
			p = p[k:]
			taken += k
		}
		switch {
		case c.closed:
			err = errSimClosed
		case !c.wdl.IsZero() && !time.Now().Before(c.wdl):
			err = c.timeoutErr()
		case !c.writeBlocks && !(c.blockAfter > 0 && len(c.out)+len(p) > c.blockAfter):
			c.out = append(c.out, p...)
			c.log(Event{Op: "write", N: taken + len(p)})
			fire := !c.reqDone && strings.Contains(string(c.out), "\r\n\r\n")
			if fire {
				c.reqDone = true
			}
			cb := c.onRequest
			c.mu.Unlock()
			if fire && cb != nil {
				cb()
			}
			if hook != nil {
				hook(k, "write", "exit")
			}
			return taken + len(p), nil
		}
		if err != nil {
			c.log(Event{Op: "write", N: taken, Err: errName(err)})
			c.mu.Unlock()
			return taken, err
		}
		c.cond.Wait()
	}
}

func (c *Conn) setDL(which string, t time.Time) {
	c.mu.Lock()
	defer c.mu.Unlock()
	ev := Event{Op: which, Zero: t.IsZero(), Past: !t.IsZero() && !time.Now().Before(t)}
	c.log(ev)
	arm := func(old **time.Timer) {
		if *old != nil {
			(*old).Stop()
			*old = nil
		}
		if t.IsZero() {
			return
		}
		d := time.Until(t)
		if d <= 0 {
			return
		}
		*old = time.AfterFunc(d, func() {
			c.mu.Lock()
			c.cond.Broadcast()
			c.mu.Unlock()
		})
	}
	if which != "setwritedeadline" {
		c.rdl = t
		arm(&c.rtimer)
	}
	if which != "setreaddeadline" {
		c.wdl = t
		arm(&c.wtimer)
	}
	c.cond.Broadcast()
}

func (c *Conn) SetDeadline(t time.Time) error      { c.rawDL("setdeadline", t); return nil }
func (c *Conn) SetReadDeadline(t time.Time) error  { c.rawDL("setreaddeadline", t); return nil }
func (c *Conn) SetWriteDeadline(t time.Time) error { c.rawDL("setwritedeadline", t); return nil }

// settleBeforeDL: a deadline call that is not the watcher's own (which sets
// an instant long past) comes from the goroutine that runs Dial; like reads
// and writes it is one of the points at which, when the context has already
// ended, the watcher is let act first (dlHook) - so that the schedule
// "watcher's deadline, then Dial's" is among those explored.
func (c *Conn) settleBeforeDL(t time.Time) {
	c.mu.Lock()
	h := c.dlHook
	c.mu.Unlock()
	if h != nil && (t.IsZero() || time.Now().Before(t)) {
		h()
	}
}

// rawDL is a deadline call on the connection itself. When a layer above it
// keeps the deadlines (ownDLConn), calls that bypass that layer are recorded
// and change nothing, as with a tunnel or a buffering wrapper that does not
// forward them.
func (c *Conn) rawDL(which string, t time.Time) {
	c.settleBeforeDL(t)
	if c.owned {
		c.mu.Lock()
		c.log(Event{Op: "below_wrapper_" + which, Zero: t.IsZero(), Past: !t.IsZero() && !time.Now().Before(t)})
		c.mu.Unlock()
		return
	}
	c.setDL(which, t)
}

// ownDLConn is what an application's WrapConn returns when its layer
// implements deadlines itself: only deadlines set on it affect I/O.
type ownDLConn struct{ c *Conn }

func (w ownDLConn) Read(p []byte) (int, error)  { return w.c.Read(p) }
func (w ownDLConn) Write(p []byte) (int, error) { return w.c.Write(p) }
func (w ownDLConn) Close() error                { return w.c.Close() }
func (w ownDLConn) LocalAddr() net.Addr         { return w.c.LocalAddr() }
func (w ownDLConn) RemoteAddr() net.Addr        { return w.c.RemoteAddr() }
func (w ownDLConn) SetDeadline(t time.Time) error {
	w.c.settleBeforeDL(t)
	w.c.setDL("setdeadline", t)
	return nil
}
func (w ownDLConn) SetReadDeadline(t time.Time) error {
	w.c.settleBeforeDL(t)
	w.c.setDL("setreaddeadline", t)
	return nil
}
func (w ownDLConn) SetWriteDeadline(t time.Time) error {
	w.c.settleBeforeDL(t)
	w.c.setDL("setwritedeadline", t)
	return nil
}

// failDLConn is a transport without deadlines: the calls fail and change
// nothing (an ssh channel, a pipe of the application's own).
type failDLConn struct{ c *Conn }

var errNoDeadlines = errors.New("sim: transport does not support deadlines")

func (w failDLConn) Read(p []byte) (int, error)         { return w.c.Read(p) }
func (w failDLConn) Write(p []byte) (int, error)        { return w.c.Write(p) }
func (w failDLConn) Close() error                       { return w.c.Close() }
func (w failDLConn) LocalAddr() net.Addr                { return w.c.LocalAddr() }
func (w failDLConn) RemoteAddr() net.Addr               { return w.c.RemoteAddr() }
func (w failDLConn) SetDeadline(t time.Time) error      { return errNoDeadlines }
func (w failDLConn) SetReadDeadline(t time.Time) error  { return errNoDeadlines }
func (w failDLConn) SetWriteDeadline(t time.Time) error { return errNoDeadlines }

func (c *Conn) Close() error {
	c.mu.Lock()
	defer c.mu.Unlock()
	c.log(Event{Op: "close"})
	c.closed = true
	if c.rtimer != nil {
		c.rtimer.Stop()
	}
	if c.wtimer != nil {
		c.wtimer.Stop()
	}
	c.cond.Broadcast()
	return nil
}

func (c *Conn) LocalAddr() net.Addr  { return simAddr{} }
func (c *Conn) RemoteAddr() net.Addr { return simAddr{} }

type simAddr struct{}

func (simAddr) Network() string { return "sim" }
func (simAddr) String() string  { return "sim" }

// deliver makes bytes readable (peer side).
func (c *Conn) deliver(b []byte) {
	c.mu.Lock()
	c.in = append(c.in, b...)
	c.cond.Broadcast()
	c.mu.Unlock()
}

func (c *Conn) deadlinesCleared() bool {
	c.mu.Lock()
	defer c.mu.Unlock()
	return c.rdl.IsZero() && c.wdl.IsZero()
}

func (c *Conn) isClosed() bool {
	c.mu.Lock()
	defer c.mu.Unlock()
	return c.closed
}

func (c *Conn) nEvents() int {
	c.mu.Lock()
	defer c.mu.Unlock()
	return len(c.Events)
}

// wrapConn is what the application's WrapConn / TLSClient stubs return.
type wrapConn struct{ net.Conn }

// ---------------------------------------------------------------------------
// Scenario

type scenario struct {
	CtxKind      int           // 0 background 1 cancel-only 2 with deadline
	BgKind       int           // kind 0: 0 context.Background() 1 context.TODO() 2 a values-only child of Background 3 context.WithoutCancel of a cancellable parent (none of them can ever end)
	DLFail       bool          // WrapConn returns a layer whose deadline calls fail and change nothing (a transport without deadlines); only with peers that answer
	WrapOwn      bool          // WrapConn returns a layer that keeps the deadlines itself (deadline calls on the conn below it change nothing)
	CompanionWin int           // Companion: how many bytes of its request the companion's peer takes before it stalls
	WriteWin     int           // Peer 3 only: how many bytes of the request the peer takes before it stalls (0: none)
	Offers       bool          // the Dialer offers extensions and subprotocols (the peer accepts none of them)
	Companion    bool          // another Dial of the process is in progress (blocked writing its request) while this one runs
	HTTPHeader   bool          // BigHeader only: the headers are an http.Header given through ws.HandshakeHeaderHTTP
	BigHeader    bool          // Dialer.Header makes the request several times larger than a small WriteBufferSize
	OwnCtx       bool          // the cancel-only context is the application's own implementation of context.Context (own Done channel), not a standard library type
	Debug        int           // 0 ws.Dialer.Dial, 1 wsutil.DebugDialer with both callbacks, 2 with OnResponse only
	Cause        bool          // the context carries an application cause (WithCancelCause / WithDeadlineCause); ctx.Err() is unaffected by it
	CtxDeadline  time.Duration // kind 2
	Timeout      time.Duration // Dialer.Timeout (0 none)
	ConnectDelay time.Duration
	IgnoreCtx    bool // NetDial does not look at its context (a custom dialer may not)
	TLS          bool
	RealTLS      bool // wss through the library's default tls.Client (no TLSClient stub): the peer never answers the ClientHello
	StatusBody   bool // peer 1 announces a body that never arrives; Dialer.OnStatusError reads its reader
	Wrap         bool
	Peer         int // 0 responsive 1 rejecting 2 silent 3 write-blocking
	RespDelay    time.Duration
	Segs         int
	Gap          time.Duration
	Trailing     bool
	RBuf         int
	SegMax       int
	ErrWraps     bool // the conn's deadline errors wrap a plain cause (still net.Errors that report Timeout)
}

func (s scenario) String() string {
	return fmt.Sprintf("debug=%d wrapown=%v dlfail=%v bighdr=%v(http=%v) companion=%v/%d offers=%v wwin=%d ctx=%d/%d(dl=%v cause=%v own=%v) timeout=%v connect=%v(ignoreCtx=%v) tls=%v(real=%v) statusBody=%v wrap=%v peer=%d respDelay=%v segs=%d gap=%v trailing=%v rbuf=%d segmax=%d",
		s.Debug, s.WrapOwn, s.DLFail, s.BigHeader, s.HTTPHeader, s.Companion, s.CompanionWin, s.Offers, s.WriteWin, s.CtxKind, s.BgKind, s.CtxDeadline, s.Cause, s.OwnCtx, s.Timeout, s.ConnectDelay, s.IgnoreCtx, s.TLS, s.RealTLS, s.StatusBody, s.Wrap, s.Peer, s.RespDelay, s.Segs, s.Gap, s.Trailing, s.RBuf, s.SegMax)
}

// cancelPlan says when the harness cancels the caller's context.
type cancelPlan struct {
	Kind  string // none | op | time | afterReturn | unforced
	K     int    // op index
	Phase string // enter | exit
	At    time.Duration
}

func (p cancelPlan) String() string {
	switch p.Kind {
	case "op":
		return fmt.Sprintf("cancel at conn op %d/%s (watcher run to quiescence)", p.K, p.Phase)
	case "unforced":
		return fmt.Sprintf("cancel at conn op %d/%s without waiting (select race)", p.K, p.Phase)
	case "time":
		return fmt.Sprintf("cancel at t=%v", p.At)
	}
	return p.Kind
}

// outcome of one execution.
type outcome struct {
	Err        error
	Conn       net.Conn
	BR         *bufio.Reader
	Sim        *Conn // nil if NetDial never produced a conn
	Returned   time.Duration
	Events     []Event
	EventsAtRt int
	CtxErrAtIO error // ctx.Err() observed when Dial returned
	Leak       int
	Late       []Event // calls on the conn after Dial returned
	Cleared    bool
	Closed     bool
	Panic      string // Dial panicked: value and innermost library frame
	Deadlock   string
	CtxEndedAt time.Duration // -1: never
	Cancelled  bool
}

func acceptFor(request string) string {
	key := ""
	for _, l := range strings.Split(request, "\r\n") {
		if strings.HasPrefix(strings.ToLower(l), "sec-websocket-key:") {
			key = strings.TrimSpace(l[len("sec-websocket-key:"):])
		}
	}
	h := sha1.Sum([]byte(key + "258EAFA5-E914-47DA-95CA-C5AB0DC85B11"))
	return base64.StdEncoding.EncodeToString(h[:])
}

// execute runs Dial once inside a bubble.
func execute(sc scenario, plan cancelPlan) (o *outcome) {
	o = &outcome{CtxEndedAt: -1}
	defer func() {
		if x := recover(); x != nil {
			o.Deadlock = fmt.Sprint(x)
		}
	}()
	// Real sync.Pools are emptied before every bubble: anything pooled that
	// belongs to a bubble (a channel, a timer) is fatal to touch from the next.
	eng.FreshPools()
	synctest.Test(T, func(t *testing.T) {
		if pre := prelude; pre != nil {
			// An earlier Dial of the same process, in the same bubble.
			dialOnce(pre.sc, pre.plan, &outcome{CtxEndedAt: -1})
		}
		var stopCompanion func()
		if sc.Companion {
			stopCompanion = companionDial(sc.CompanionWin)
		}
		dialOnce(sc, plan, o)
		if stopCompanion != nil {
			stopCompanion()
		}
	})
	return o
}

// companionDial starts another Dial of the process and leaves it where a
// Dial spends its time on a slow network: blocked in a write of its request
// (extension offers and a long header, a write buffer too small for them) to a
// peer that takes nothing. The Dial under observation must not care. The
// returned function ends the companion (cancels its context and waits).
func companionDial(window int) func() {
	ctx, cancel := context.WithCancel(context.Background())
	conn := newConn(time.Now())
	conn.blockAfter = 1 + window // the peer takes that much, then nothing
	d := ws.Dialer{
		WriteBufferSize: 64,
		Extensions:      []httphead.Option{httphead.NewOption("permessage-deflate", map[string]string{"client_max_window_bits": ""}), httphead.NewOption("x-companion", nil)},
		Protocols:       []string{"chat", "superchat"},
		Header:          ws.HandshakeHeaderString("X-Pad: " + strings.Repeat("c", 300) + "\r\n"),
		NetDial:         func(context.Context, string, string) (net.Conn, error) { return conn, nil },
	}
	done := make(chan struct{})
	go func() {
		defer close(done)
		defer func() { recover() }()
		d.Dial(ctx, "ws://companion.example/")
	}()
	synctest.Wait() // the companion is now parked inside its write
	return func() {
		cancel()
		<-done
	}
}

// preludeSpec is an earlier Dial the process made before the one under
// observation (set per run by C20, nil for most runs).
type preludeSpec struct {
	sc   scenario
	plan cancelPlan
}

var prelude *preludeSpec

// dialOnce is one Dial with its peer, its context and its cancel plan; it
// leaves nothing behind in the bubble.
func dialOnce(sc scenario, plan cancelPlan, o *outcome) {
	{
		start := time.Now()
		var sim *Conn
		base := context.Background()
		var ctx context.Context = base
		cancel := func() {}
		switch sc.CtxKind {
		case 0:
			switch sc.BgKind {
			case 1:
				ctx = context.TODO()
			case 2:
				ctx = context.WithValue(base, ctxKey{}, "request-42")
			case 3:
				parent, stop := context.WithCancel(base)
				defer stop()
				ctx = context.WithoutCancel(parent)
			}
		case 1:
			ctx, cancel = context.WithCancel(base)
			if sc.OwnCtx {
				oc := &ownCtx{done: make(chan struct{})}
				ctx, cancel = oc, oc.cancel
			}
			if sc.Cause {
				var cc context.CancelCauseFunc
				ctx, cc = context.WithCancelCause(base)
				cancel = func() { cc(errAppCause) }
			}
		case 2:
			ctx, cancel = context.WithDeadline(base, start.Add(sc.CtxDeadline))
			if sc.Cause {
				ctx, cancel = context.WithDeadlineCause(base, start.Add(sc.CtxDeadline), errAppCause)
			}
		}
		defer cancel()
		doCancel := func(wait bool) {
			o.Cancelled = true
			if o.CtxEndedAt < 0 {
				o.CtxEndedAt = time.Since(start)
			}
			cancel()
			if wait {
				synctest.Wait()
			}
		}
		d := ws.Dialer{Timeout: sc.Timeout, ReadBufferSize: sc.RBuf}
		if sc.Offers {
			d.Extensions = []httphead.Option{httphead.NewOption("permessage-deflate", map[string]string{"client_max_window_bits": ""}), httphead.NewOption("x-main", nil)}
			d.Protocols = []string{"chat"}
		}
		if sc.BigHeader {
			// A request that does not fit the write buffer: the connection is
			// written to from inside the header writer, several times.
			d.WriteBufferSize = 64
			d.Header = ws.HandshakeHeaderString("X-Pad: " + strings.Repeat("p", 300) + "\r\nX-More: " + strings.Repeat("q", 200) + "\r\n")
			if sc.HTTPHeader {
				d.Header = ws.HandshakeHeaderHTTP(http.Header{"X-Pad": []string{strings.Repeat("p", 300)}, "X-More": []string{strings.Repeat("q", 200)}})
			} else if sc.SegMax == 7 {
				// ... or the application's own writer function, which says
				// where an error came from when it passes one on.
				text := "X-Pad: " + strings.Repeat("p", 300) + "\r\nX-More: " + strings.Repeat("q", 200) + "\r\n"
				d.Header = ws.HandshakeHeaderFunc(func(w io.Writer) (int64, error) {
					n, err := io.WriteString(w, text)
					if err != nil {
						err = fmt.Errorf("writing the application's headers: %w", err)
					}
					return int64(n), err
				})
			}
		}
		d.NetDial = func(dctx context.Context, network, addr string) (net.Conn, error) {
			if sc.IgnoreCtx {
				time.Sleep(sc.ConnectDelay)
			} else if sc.ConnectDelay > 0 {
				tm := time.NewTimer(sc.ConnectDelay)
				defer tm.Stop()
				select {
				case <-tm.C:
				case <-dctx.Done():
					return nil, dctx.Err()
				}
			}
			if err := dctx.Err(); err != nil && !sc.IgnoreCtx {
				return nil, err
			}
			c := newConn(start)
			c.segMax = sc.SegMax
			c.errWraps = sc.ErrWraps
			c.writeBlocks = sc.Peer == 3
			if sc.Peer == 3 && sc.WriteWin > 0 {
				// The peer takes the first bytes of the request, then stalls:
				// the write that crosses the window reports a part as written
				// together with the error that ends it.
				c.writeBlocks, c.blockAfter = false, sc.WriteWin
			}
			c.onRequest = func() {
				if sc.Peer == 2 {
					return
				}
				var resp string
				if sc.Peer == 1 && sc.StatusBody {
					resp = "HTTP/1.1 400 Bad Request\r\nContent-Length: 10\r\n\r\n" // the body never comes
				} else if sc.Peer == 1 {
					resp = "HTTP/1.1 400 Bad Request\r\nContent-Length: 0\r\n\r\n"
				} else {
					resp = "HTTP/1.1 101 Switching Protocols\r\nUpgrade: websocket\r\nConnection: Upgrade\r\nSec-WebSocket-Accept: " +
						acceptFor(string(c.out)) + "\r\nX-Pad: " + strings.Repeat("p", 40) + "\r\n\r\n"
					if sc.Trailing {
						resp += string(ws.CompiledPing)
					}
				}
				n := sc.Segs
				if n < 1 {
					n = 1
				}
				per := (len(resp) + n - 1) / n
				var segs [][]byte
				for i := 0; i < n; i++ {
					lo, hi := i*per, (i+1)*per
					if hi > len(resp) {
						hi = len(resp)
					}
					if lo >= hi {
						break
					}
					segs = append(segs, []byte(resp[lo:hi]))
				}
				// One chain of timers: two timers due at the same fake instant
				// would fire in an order the harness does not control.
				var sendFrom func(i int)
				sendFrom = func(i int) {
					if sc.Gap == 0 {
						// Same instant: one atomic delivery, else the reader
						// could observe a half-delivered burst.
						var all []byte
						for ; i < len(segs); i++ {
							all = append(all, segs[i]...)
						}
						c.deliver(all)
						return
					}
					c.deliver(segs[i])
					if i+1 < len(segs) {
						time.AfterFunc(sc.Gap, func() { sendFrom(i + 1) })
					}
				}
				if sc.RespDelay == 0 {
					sendFrom(0)
				} else {
					time.AfterFunc(sc.RespDelay, func() { sendFrom(0) })
				}
			}
			c.hook = func(k int, op, phase string) {
				if (plan.Kind == "op" || plan.Kind == "unforced") && k == plan.K && phase == plan.Phase {
					doCancel(plan.Kind == "op")
					return
				}
				// If the context has already ended, let the watcher goroutine
				// act before the operation proceeds: otherwise whether it runs
				// before or after a non-blocking handshake is up to the Go
				// scheduler (and, at the very end, to the runtime's choice
				// between two ready select cases).
				ended := ctx.Err() != nil || (sc.Timeout != 0 && time.Since(start) >= sc.Timeout)
				if phase == "enter" && plan.Kind != "unforced" && ended {
					synctest.Wait()
				}
			}
			c.dlHook = func() {
				ended := ctx.Err() != nil || (sc.Timeout != 0 && time.Since(start) >= sc.Timeout)
				if plan.Kind != "unforced" && ended {
					synctest.Wait()
				}
			}
			sim = c
			return c, nil
		}
		if sc.TLS && !sc.RealTLS {
			d.TLSClient = func(c net.Conn, hostname string) net.Conn { return wrapConn{c} }
		}
		if sc.RealTLS {
			d.TLSConfig = &tls.Config{InsecureSkipVerify: true}
		}
		if sc.StatusBody {
			d.OnStatusError = func(status int, reason []byte, resp io.Reader) { io.Copy(io.Discard, resp) }
		}
		if sc.Wrap {
			d.WrapConn = func(c net.Conn) net.Conn { return wrapConn{c} }
		}
		if sc.WrapOwn {
			d.WrapConn = func(c net.Conn) net.Conn {
				if sc, ok := c.(*Conn); ok && sc != nil {
					sc.mu.Lock()
					sc.owned = true
					sc.mu.Unlock()
					return ownDLConn{sc}
				}
				return c
			}
		}
		if sc.DLFail {
			d.WrapConn = func(c net.Conn) net.Conn {
				if sc, ok := c.(*Conn); ok && sc != nil {
					return failDLConn{sc}
				}
				return c
			}
		}
		if plan.Kind == "time" {
			if plan.At == 0 {
				doCancel(false) // before Dial starts; a zero timer would race with it
			} else {
				time.AfterFunc(plan.At, func() { doCancel(false) })
			}
		}
		url := "ws://example.com/chat"
		if sc.TLS {
			url = "wss://example.com/chat"
		}
		synctest.Wait()
		g0 := runtime.NumGoroutine()
		func() {
			// A panic inside Dial must not take the bubble (and the worker)
			// down: it is a result like any other.
			defer func() {
				if x := recover(); x != nil {
					o.Panic = fmt.Sprintf("%v @ %s", x, eng.LibFrame(debug.Stack()))
					o.Err = fmt.Errorf("panic: %v", x)
				}
			}()
			if sc.Debug > 0 {
				// The same Dial through the debugging wrapper: cancellation
				// must be honoured just the same (it only adds a WrapConn).
				dd := &wsutil.DebugDialer{Dialer: d, OnResponse: func([]byte) {}}
				if sc.Debug == 1 {
					dd.OnRequest = func([]byte) {}
				}
				o.Conn, o.BR, _, o.Err = dd.Dial(ctx, url)
			} else {
				o.Conn, o.BR, _, o.Err = d.Dial(ctx, url)
			}
		}()
		if o.BR != nil {
			// "received non-nil bufio.Reader should be returned ... with
			// PutReader()": the caller does, whatever the error says (the sim
			// pool notices a reader that is put twice).
			ws.PutReader(o.BR)
		}
		o.Returned = time.Since(start)
		o.CtxErrAtIO = ctx.Err()
		if o.CtxEndedAt < 0 && ctx.Err() != nil {
			// Deadline-driven end: the instant is the deadline.
			o.CtxEndedAt = sc.CtxDeadline
		}
		o.Sim = sim
		if sim != nil {
			o.EventsAtRt = sim.nEvents()
			o.Cleared = sim.deadlinesCleared()
			o.Closed = sim.isClosed()
		}
		// The watcher must be gone by now.
		synctest.Wait()
		// A goroutine that has just finished may still be counted for an
		// instant; a leaked one (durably blocked) stays.
		for i := 0; i < 4000; i++ {
			if o.Leak = runtime.NumGoroutine() - g0; o.Leak <= 0 {
				break
			}
			runtime.Gosched()
			if i > 100 {
				ts := syscall.Timespec{Nsec: 50_000} // real time, not the bubble's clock
				syscall.Nanosleep(&ts, nil)
			}
		}
		// Order (B): cancel after return, then a long silence: the library must
		// not touch the conn again.
		if plan.Kind == "afterReturn" {
			doCancel(true)
		} else {
			cancel()
		}
		time.Sleep(time.Hour)
		synctest.Wait()
		if sim != nil {
			sim.mu.Lock()
			o.Events = append([]Event(nil), sim.Events...)
			sim.mu.Unlock()
			if len(o.Events) > o.EventsAtRt {
				o.Late = o.Events[o.EventsAtRt:]
			}
			// Let nothing of ours keep the bubble alive.
			sim.Close()
		}
	}
}

// ---------------------------------------------------------------------------
// The property

type ctxKey struct{}

// ownCtx is a context.Context that is not one of the standard library's
// types: contexts derived from it watch its Done channel from a goroutine of
// their own until they are cancelled.
type ownCtx struct {
	mu   sync.Mutex
	done chan struct{}
	err  error
}

func (c *ownCtx) Deadline() (time.Time, bool) { return time.Time{}, false }
func (c *ownCtx) Done() <-chan struct{}       { return c.done }
func (c *ownCtx) Value(any) any               { return nil }
func (c *ownCtx) Err() error {
	c.mu.Lock()
	defer c.mu.Unlock()
	return c.err
}
func (c *ownCtx) cancel() {
	c.mu.Lock()
	if c.err == nil {
		c.err = context.Canceled
		close(c.done)
	}
	c.mu.Unlock()
}

// errAppCause is the cause an application attaches to its context.
var errAppCause = errors.New("application: shutting down")

func drawScenario(r *eng.Run) scenario {
	ms := time.Millisecond
	sc := scenario{}
	sc.CtxKind = r.T.Int(sim.LCfg, 3)
	sc.Cause = sc.CtxKind != 0 && r.T.Chance(sim.LCfg, 1, 4)
	sc.OwnCtx = sc.CtxKind == 1 && !sc.Cause && r.T.Chance(sim.LCfg, 1, 4)
	sc.BigHeader = r.T.Chance(sim.LCfg, 1, 4)
	if r.T.Chance(sim.LCfg, 1, 5) {
		sc.Debug = 1 + r.T.Int(sim.LCfg, 2)
	}
	sc.Peer = []int{0, 0, 0, 1, 2, 2, 3}[r.T.Int(sim.LCfg, 7)]
	sc.ConnectDelay = []time.Duration{0, 50 * ms}[r.T.Int(sim.LDelay, 2)]
	sc.IgnoreCtx = r.T.Chance(sim.LCfg, 1, 3)
	sc.StatusBody = sc.Peer == 1 && r.T.Bool(sim.LCfg)
	sc.RespDelay = []time.Duration{0, 100 * ms, 300 * ms}[r.T.Int(sim.LDelay, 3)]
	sc.Segs = 1 + r.T.Int(sim.LSeg, 4)
	sc.Gap = []time.Duration{0, 100 * ms}[r.T.Int(sim.LDelay, 2)]
	sc.Trailing = r.T.Bool(sim.LCfg)
	sc.TLS = r.T.Chance(sim.LCfg, 1, 4)
	sc.Wrap = r.T.Chance(sim.LCfg, 1, 4)
	sc.WrapOwn = !sc.TLS && !sc.Wrap && r.T.Chance(sim.LCfg, 1, 4)
	if sc.CtxKind == 0 && r.T.Bool(sim.LCfg) {
		sc.BgKind = 1 + r.T.Int(sim.LCfg, 3)
	}
	sc.RBuf = []int{0, 16, 64}[r.T.Int(sim.LSize, 3)]
	sc.SegMax = []int{0, 1, 7}[r.T.Int(sim.LSeg, 3)]
	sc.ErrWraps = r.T.Chance(sim.LCfg, 1, 4)
	// Deadlines avoid exact ties with peer events (multiples of 50ms): +-1ms.
	instants := []time.Duration{25 * ms, 49 * ms, 51 * ms, 99 * ms, 101 * ms, 149 * ms, 151 * ms, 199 * ms, 251 * ms, 349 * ms, 351 * ms, 451 * ms, 900 * ms, 5000 * ms}
	if sc.CtxKind == 2 {
		sc.CtxDeadline = instants[r.T.Int(sim.LDelay, len(instants))]
	}
	switch r.T.Int(sim.LCfg, 3) {
	case 1, 2:
		sc.Timeout = instants[r.T.Int(sim.LDelay, len(instants))]
	}
	if sc.Timeout != 0 && r.T.Chance(sim.LDelay, 1, 10) {
		// A budget that is already spent (time.Until of an instant that has
		// passed): the timeout has elapsed before Dial starts.
		sc.Timeout = -[]time.Duration{1, 25 * ms, 5000 * ms}[r.T.Int(sim.LDelay, 3)]
	}
	if sc.TLS && r.T.Bool(sim.LCfg) {
		// The library's own TLS client against a peer that never answers the
		// ClientHello.
		sc.RealTLS, sc.Peer = true, 2
	}
	// Something must be able to end the wait on a silent / blocking peer.
	if sc.StatusBody && sc.CtxKind == 0 && sc.Timeout == 0 {
		sc.Timeout = 451 * ms
	}
	if (sc.Peer == 2 || sc.Peer == 3) && sc.CtxKind == 0 && sc.Timeout == 0 {
		sc.Timeout = 451 * ms
	}
	// A transport without deadlines cannot be interrupted: only peers that
	// answer, and only the clauses that do not rest on deadlines, apply.
	if !sc.TLS && !sc.Wrap && !sc.WrapOwn && sc.Debug == 0 && sc.Peer <= 1 && !sc.StatusBody && r.T.Chance(sim.LCfg, 1, 6) {
		sc.DLFail = true
	}
	sc.HTTPHeader = sc.BigHeader && r.T.Bool(sim.LCfg)
	if sc.Peer == 3 {
		sc.WriteWin = []int{0, 0, 1, 10, 100, 300}[r.T.Int(sim.LSize, 6)]
	}
	sc.Companion = r.T.Chance(sim.LCfg, 1, 8)
	if sc.Companion {
		sc.CompanionWin = 64 * r.T.Int(sim.LSize, 10)
		sc.Offers = true
	} else {
		sc.Offers = r.T.Chance(sim.LCfg, 1, 6)
	}
	return sc
}

// realLoopback is the one scenario that leaves the simulator: Dialer.NetDial
// is nil, so the library dials with its own net.Dialer, which needs a real
// socket (a real socket inside a synctest bubble stalls the fake clock). A
// loopback listener accepts and stays silent; Timeout is 20 ms of wall-clock
// time; the harness cancels the caller's context after 15 s as a safety net.
// The verdict only distinguishes "the timeout ended the wait" from "only the
// safety net did" (a factor of 750 apart), nothing of it enters the digests.
func realLoopback(r *eng.Run) {
	r.SetEntry("Dialer.Dial/default-net-dialer")
	// This Dial runs outside any bubble: nothing pooled by an earlier bubble
	// (a channel, a timer) may reach it.
	eng.FreshPools()
	defer eng.FreshPools()
	kind := r.T.Int(sim.LCfg, 3)
	ln, err := net.Listen("tcp", "127.0.0.1:0")
	if err != nil {
		r.Probe("loopback_not_available")
		return
	}
	defer ln.Close()
	var mu sync.Mutex
	var held []net.Conn
	go func() {
		for {
			c, err := ln.Accept()
			if err != nil {
				return
			}
			mu.Lock()
			held = append(held, c) // accepted, never answered
			mu.Unlock()
		}
	}()
	defer func() {
		mu.Lock()
		for _, c := range held {
			c.Close()
		}
		mu.Unlock()
	}()
	const safety = 15 * time.Second
	ctx := context.Background()
	cancel := func() {}
	switch kind {
	case 0:
		ctx, cancel = context.WithCancel(ctx)
	case 1:
		ctx, cancel = context.WithDeadline(ctx, time.Now().Add(time.Hour))
	}
	var fired atomic.Bool
	guard := time.AfterFunc(safety, func() {
		fired.Store(true)
		cancel()
		// (With the background context there is nothing to cancel: the silent
		// peer hangs up instead, which ends any wait on the socket.)
		mu.Lock()
		for _, c := range held {
			c.Close()
		}
		mu.Unlock()
	})
	d := ws.Dialer{Timeout: 20 * time.Millisecond}
	t0 := time.Now()
	conn, br, _, derr := d.Dial(ctx, "ws://"+ln.Addr().String()+"/chat")
	el := time.Since(t0)
	guard.Stop()
	cancel()
	if br != nil {
		ws.PutReader(br)
	}
	if conn != nil && derr == nil {
		conn.Close()
	}
	r.Res.Nontrivial = true
	r.Res.FaultPoints++
	r.Fault("dial_timeout_on_real_loopback")
	r.Probe("default_net_dialer_on_loopback")
	r.Note("C20 real loopback: ctx kind %d, Timeout 20ms, silent peer: err=%v", kind, derr)
	switch {
	case derr == nil:
		r.Failf("success_on_silent_peer", "default net.Dialer on loopback, ctx kind %d: Dial returned a nil error although the peer never answered", kind)
	case fired.Load() || el >= safety:
		r.Failf("returned_late", "default net.Dialer on loopback (NetDial == nil), ctx kind %d, Timeout=20ms, silent peer: Dial only returned (%v) when the harness cancelled the context after %v", kind, derr, safety)
	}
}

// C20 runs one scenario under every cancellation point.
func C20(r *eng.Run) {
	r.SetEntry("Dialer.Dial")
	if r.T.Chance(sim.LCfg, 1, 250) {
		realLoopback(r)
		return
	}
	sc := drawScenario(r)
	r.Note("C20 scenario: %s", sc)
	r.Res.Nontrivial = true
	prelude = nil
	defer func() { prelude = nil }()
	if r.T.Chance(sim.LHist, 1, 4) {
		// The process has dialed before: a cancel-only context ended at some
		// instant of an unrelated handshake (answered, rejected or silent).
		pre := drawScenario(r)
		pre.CtxKind, pre.Cause, pre.Timeout, pre.RealTLS, pre.Debug, pre.DLFail = 1, false, 0, false, 0, false
		pre.Peer = []int{0, 1, 1, 2}[r.T.Int(sim.LCfg, 4)]
		ms := time.Millisecond
		at := []time.Duration{13 * ms, 77 * ms, 173 * ms, 327 * ms, 423 * ms}[r.T.Int(sim.LDelay, 5)]
		prelude = &preludeSpec{sc: pre, plan: cancelPlan{Kind: "time", At: at}}
		r.Note("C20 earlier dial of the process: %s, cancel at %v", pre, at)
		r.Probe("dial_after_an_earlier_dial_of_the_process")
	}
	canCancel := sc.CtxKind != 0
	// A cancel-only context facing a peer that never lets the handshake end
	// needs the harness to cancel eventually, otherwise blocking forever is
	// correct behaviour.
	needsEnd := (sc.Peer == 2 || sc.Peer == 3 || sc.StatusBody) && sc.CtxKind == 1 && sc.Timeout == 0
	var plans []cancelPlan
	if !needsEnd {
		plans = append(plans, cancelPlan{Kind: "none"})
	}
	base := execute(sc, cancelPlan{Kind: "time", At: 24 * time.Hour})
	if needsEnd {
		base = execute(sc, cancelPlan{Kind: "time", At: 2 * time.Second})
	}
	nops := 0
	if base.Sim != nil {
		for _, e := range base.Events[:base.EventsAtRt] {
			if e.Op == "read" || e.Op == "write" {
				nops++
			}
		}
	}
	if canCancel {
		plans = append(plans, cancelPlan{Kind: "afterReturn"})
		ms := time.Millisecond
		// Instants that tie with no peer event, deadline or timeout instant.
		for _, at := range []time.Duration{0, 13 * ms, 77 * ms, 173 * ms, 327 * ms, 423 * ms, 2003 * ms} {
			plans = append(plans, cancelPlan{Kind: "time", At: at})
		}
		for k := 0; k < nops+1; k++ {
			plans = append(plans, cancelPlan{Kind: "op", K: k, Phase: "enter"}, cancelPlan{Kind: "op", K: k, Phase: "exit"})
		}
		// Mode (C): cancel without letting the watcher settle. Which branch
		// the library takes is then up to the Go scheduler and the runtime's
		// select; the oracle applies to whichever happened, and the outcome is
		// kept out of digests and step counts (it is not replayable by seed).
		for k := 0; k < nops; k++ {
			plans = append(plans, cancelPlan{Kind: "unforced", K: k, Phase: "exit"})
		}
	}
	for _, plan := range plans {
		if needsEnd && plan.Kind != "time" && plan.Kind != "op" {
			continue
		}
		r.Res.FaultPoints++
		o := execute(sc, plan)
		if needsEnd && plan.Kind == "op" && !o.Cancelled {
			continue // the op never happened: nothing ended the wait, by design
		}
		check(r, sc, plan, o)
		if plan.Kind == "unforced" {
			continue
		}
		r.Res.FakeNanos += int64(o.Returned)
		r.Res.Steps += int64(len(o.Events))
		r.D.Add(uint64(o.Returned))
		r.D.Add(uint64(len(o.Events)))
		if o.Err != nil {
			r.D.AddString(o.Err.Error())
		}
	}
}

func describe(o *outcome) string {
	var b strings.Builder
	for i, e := range o.Events {
		if i == o.EventsAtRt {
			b.WriteString(" | Dial returned |")
		}
		fmt.Fprintf(&b, " %v:%s", e.At, e.Op)
		if e.N > 0 {
			fmt.Fprintf(&b, "(%d)", e.N)
		}
		if e.Err != "" {
			b.WriteString("!" + e.Err)
		}
		if e.Zero {
			b.WriteString("(zero)")
		}
		if e.Past {
			b.WriteString("(past)")
		}
	}
	return b.String()
}

func check(r *eng.Run, sc scenario, plan cancelPlan, o *outcome) {
	tag := fmt.Sprintf("[%s] %s", sc, plan)
	switch plan.Kind {
	case "op":
		r.Fault("cancel_at_conn_op_" + plan.Phase)
	case "time":
		r.Fault("cancel_at_time")
	case "afterReturn":
		r.Fault("cancel_after_return")
	case "unforced":
		r.Fault("cancel_unforced_select_race")
	}
	if o.Deadlock != "" {
		if strings.Contains(o.Deadlock, "deadlock") {
			r.Failf("dial_never_returned_or_goroutine_left", "%s: %s; conn calls:%s", tag, o.Deadlock, describe(o))
		}
		r.Internalf("bubble panic: %s", o.Deadlock)
	}
	trace := describe(o)
	if o.Panic != "" {
		r.Failf("panic", "%s: Dial panicked: %s; conn calls:%s", tag, o.Panic, trace)
	}
	if o.Err == nil {
		r.Probe("dial_success")
		// R1
		if o.Sim == nil || o.Conn == nil {
			// NetDial never produced a connection (or none was handed back),
			// yet Dial reports success.
			r.Failf("success_without_conn", "%s: Dial returned a nil error and conn=%v although NetDial produced conn=%v; conn calls:%s", tag, o.Conn != nil, o.Sim != nil, trace)
		}
		if o.Closed {
			r.Failf("success_with_closed_conn", "%s: Dial returned nil error but closed the connection; conn calls:%s", tag, trace)
		}
		if !o.Cleared {
			r.Failf("success_with_deadline_left", "%s: Dial returned nil error but left a deadline set on the connection; conn calls:%s", tag, trace)
		}
		if len(o.Late) > 0 {
			r.Failf("conn_touched_after_return", "%s: Dial returned nil error and later touched the connection; conn calls:%s", tag, trace)
		}
		if plan.Kind == "afterReturn" {
			r.Probe("cancel_after_success")
		}
	} else {
		r.Probe("dial_error")
		// R2
		if o.Sim != nil && !o.Closed {
			r.Failf("error_without_close", "%s: Dial returned %v but did not close the connection; conn calls:%s", tag, o.Err, trace)
		}
		if len(o.Late) > 1 || (len(o.Late) == 1 && o.Late[0].Op != "close") {
			r.Failf("conn_touched_after_return", "%s: Dial returned %v and later touched the connection; conn calls:%s", tag, o.Err, trace)
		}
		// R3: ctx ended while handshake I/O was pending and nothing else failed.
		if o.CtxErrAtIO != nil && sc.Peer != 1 && !errors.Is(o.Err, o.CtxErrAtIO) && sc.Timeout == 0 {
			r.Failf("error_is_not_ctx_error", "%s: the context ended (%v) before the handshake I/O finished but Dial returned %q; conn calls:%s", tag, o.CtxErrAtIO, o.Err, trace)
		}
		if o.CtxErrAtIO != nil && errors.Is(o.Err, o.CtxErrAtIO) {
			r.Probe("ctx_error_returned")
		}
	}
	// R3': the context was cancelled - and whatever watches it had run - at a
	// moment when Dial had not returned: the result is an error (the context's,
	// by R3), also when the handshake I/O itself could still be completed.
	if o.Err == nil && o.Cancelled && (plan.Kind == "op" || (plan.Kind == "time" && o.CtxEndedAt < o.Returned)) {
		r.Failf("success_after_context_ended", "%s: the context was cancelled at t=%v, before the handshake I/O finished, and Dial returned a nil error at t=%v; conn calls:%s", tag, o.CtxEndedAt, o.Returned, trace)
	}
	if sc.DLFail {
		r.Probe("transport_without_deadlines")
		if o.Leak > 0 {
			r.Failf("watcher_goroutine_alive_after_return", "%s: %d goroutine(s) started by Dial were still alive after it returned", tag, o.Leak)
		}
		return // R4 is about connections that honour deadlines
	}
	// R4: Dial returns once the context ends or the timeout elapses.
	bound := time.Duration(-1)
	if o.CtxEndedAt >= 0 {
		bound = o.CtxEndedAt
	} else if sc.CtxKind == 2 {
		bound = sc.CtxDeadline
	}
	if to := max(sc.Timeout, 0); sc.Timeout != 0 && (bound < 0 || to < bound) {
		bound = to
		r.Probe("timeout_is_the_bound")
		if sc.Timeout < 0 {
			r.Probe("timeout_already_elapsed")
		}
	}
	if sc.IgnoreCtx && bound >= 0 && bound < sc.ConnectDelay {
		bound = sc.ConnectDelay // a NetDial that ignores its context cannot be interrupted
	}
	if bound >= 0 && o.Returned > bound {
		r.Failf("returned_late", "%s: Dial returned at t=%v, later than the first of context end / dial timeout (t=%v); err=%v; conn calls:%s", tag, o.Returned, bound, o.Err, trace)
	}
	// R5
	if o.Leak > 0 {
		r.Failf("watcher_goroutine_alive_after_return", "%s: %d goroutine(s) started by Dial were still alive after it returned", tag, o.Leak)
	}
}
