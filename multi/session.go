package multi

import (
	"bufio"
	"bytes"
	"compress/flate"
	"context"
	"errors"
	"fmt"
	"io"
	"net"
	"net/http"
	"net/url"
	"time"

	"github.com/gobwas/httphead"
	"github.com/gobwas/pool/pbytes"
	"github.com/gobwas/ws"
	"github.com/gobwas/ws/wsflate"
	"github.com/gobwas/ws/wsutil"
)

// prng is the session-local source of decisions: a session is a deterministic
// function of its seed, whatever the schedule.
type prng struct{ x uint64 }

func (p *prng) next() uint64 {
	p.x += 0x9e3779b97f4a7c15
	z := p.x
	z = (z ^ (z >> 30)) * 0xbf58476d1ce4e5b9
	z = (z ^ (z >> 27)) * 0x94d049bb133111eb
	return z ^ (z >> 31)
}
func (p *prng) intn(n int) int { return int(p.next() % uint64(n)) }

// Exchange kinds.
const (
	exMsg        = iota // plain message through WriteMessage variants, answered by an ack
	exWriter            // message through GetWriter/PutWriter with small buffer (fragmented)
	exPingMsg           // ping with payload followed by a message
	exCompressed        // wsflate.CompressFrame / DecompressFrame
	exCompiled          // server only: precompiled ping, then a message
	exStack             // compressed message through the documented writer/reader stacks
	exOwnBuf            // message through NewWriterBuffer over a buffer the session owns and reuses, DisableFlush (grows)
	exOwnHelper         // a frame compressed through the session's own wsflate.Helper value (its own compression level)
	exBadText           // last step only: a text message that ends inside a character; the receiver's read fails, both sides leave
	exBroadcast         // client only: the message is one slice all sessions of the process share (a broadcast), sent with WriteClientText
	exCutPing           // last step only: the sender announces a ping of PingLen bytes, sends only a part of the payload and closes its connection; the receiver's read fails, both sides leave
	exCipher            // client only: header by hand, payload through wsutil.CipherWriter from a buffer the session owns (capacity = a pool class) and keeps
)

type exchange struct {
	Kind    int
	FromCli bool
	Size    int
	Text    bool
	Seed    uint64
	PingLen int
	BufSize int
}

// script is what both tasks of a session follow.
type script struct {
	Seed      uint64
	SrvKind   int // 0 ws.Upgrade (DefaultUpgrader) 1 Upgrader{Protocol,Negotiate} 2 HTTPUpgrader 3 Upgrader{ExtensionCustom zero-copy, OnBeforeUpgrade}
	Flate     bool
	Protocols []string
	Steps     []exchange
	CloseCode int
	CloseKind int  // 0 short reason, 1 long reason, 2 invalid code with a long reason, 3 invalid UTF-8 in a long reason, 4 no reason, 5 no status code at all (empty close frame)
	DeprExt   bool // SrvKind 1 with compression: the server selects through the deprecated Upgrader.Extension callback (every offered permessage-deflate option is accepted as it is)
	SrvCloses bool // the server starts the closing handshake (the client answers it)
	WSS       bool // the client first probes a wss:// dial through the default TLS client (the peer never answers)
	BadReq    int  // > 0: the client sends a request the upgrader refuses (1 no Upgrade header, 2 version 12, 3 POST); the upgrader adds a header of this session to its answer
	SrvDebug  bool // the server upgrades through the process-wide wsutil.DebugUpgrader value
	Exact     bool // the client's only offer is exactly the server's configured permessage-deflate parameters
	Vanish    int  // > 0: the client sends only the first Vanish lines of its request and goes away (the upgrader must fail; nothing else happens)
	LongHdr   bool // both peers send a header line longer than the default I/O buffer (and shorter than two of them)
	Debug     bool // the client dials through the process-wide wsutil.DebugDialer value
	SrvShared bool // the server upgrades through the process-wide ws.HTTPUpgrader value (response headers and subprotocol check configured once)
	WinBits   int  // > 0 (with Exact): both peers are configured with explicit window bits, as well as no context takeover
}

// sessionParams is the permessage-deflate configuration of a session.
func sessionParams(sc *script) wsflate.Parameters {
	if sc.WinBits == 0 {
		return wsflate.DefaultParameters
	}
	return wsflate.Parameters{
		ServerNoContextTakeover: true,
		ClientNoContextTakeover: true,
		ServerMaxWindowBits:     wsflate.WindowBits(sc.WinBits),
		ClientMaxWindowBits:     wsflate.WindowBits(8 + (sc.WinBits+3)%8),
	}
}

// SharedHTTPUpgrader is rebuilt by the driver before every run.
var SharedHTTPUpgrader *ws.HTTPUpgrader

func NewSharedHTTPUpgrader() *ws.HTTPUpgrader {
	return &ws.HTTPUpgrader{
		Header:   http.Header{"X-Server": []string{"sim"}},
		Protocol: func(p string) bool { return p == "superchat" || p == "chat" },
	}
}

var sizes = []int{0, 1, 10, 60, 65, 100, 125, 126, 127, 128, 200, 300, 1000, 4096, 5000, 70000}

func makeScript(seed uint64) *script {
	p := &prng{x: seed}
	sc := &script{Seed: seed}
	sc.SrvKind = p.intn(4)
	sc.Flate = sc.SrvKind == 3 || (sc.SrvKind != 0 && p.intn(2) == 0)
	if p.intn(2) == 0 {
		sc.Protocols = []string{"chat", fmt.Sprintf("proto-%d", seed%7), "superchat"}[:1+p.intn(3)]
	}
	n := 1 + p.intn(6)
	for i := 0; i < n; i++ {
		ex := exchange{FromCli: p.intn(2) == 0, Seed: p.next(), Text: p.intn(2) == 0}
		ex.Size = sizes[p.intn(len(sizes))]
		if ex.Size > 5000 && p.intn(3) != 0 {
			ex.Size = sizes[p.intn(11)]
		}
		ex.PingLen = []int{0, 1, 59, 60, 63, 64, 100, 125}[p.intn(8)]
		ex.BufSize = []int{16, 100, 128, 200, 512}[p.intn(5)]
		kinds := []int{exMsg, exMsg, exWriter, exPingMsg, exOwnBuf}
		if sc.Flate {
			kinds = append(kinds, exCompressed, exCompressed, exStack)
		}
		if !ex.FromCli {
			kinds = append(kinds, exCompiled)
		}
		ex.Kind = kinds[p.intn(len(kinds))]
		sc.Steps = append(sc.Steps, ex)
	}
	sc.CloseCode = []int{1000, 1001, 3000, 4000}[p.intn(4)]
	sc.CloseKind = p.intn(5)
	sc.WSS = p.intn(3) == 0
	// Not with the zero-copy ExtensionCustom server: its views into the request
	// bytes only stay put while the whole request fits the read buffer.
	sc.LongHdr = p.intn(4) == 0 && sc.SrvKind != 3
	sc.Debug = !sc.Flate && len(sc.Protocols) == 0 && !sc.LongHdr && p.intn(3) == 0
	for i := range sc.Steps {
		if sc.Steps[i].FromCli && sc.Steps[i].Kind == exMsg && p.intn(3) == 0 {
			sc.Steps[i].Kind = exCipher
		}
		if sc.Steps[i].FromCli && sc.Steps[i].Kind == exMsg && p.intn(3) == 0 {
			sc.Steps[i].Kind = exBroadcast
		}
		if sc.Flate && sc.Steps[i].Kind == exCompressed && p.intn(2) == 0 {
			sc.Steps[i].Kind = exOwnHelper
		}
	}
	if sc.SrvKind != 2 && p.intn(8) == 0 {
		sc.Vanish = 1 + p.intn(4)
	}
	sc.Exact = sc.Flate && sc.SrvKind != 3 && p.intn(3) == 0
	if sc.Vanish == 0 && p.intn(8) == 0 {
		sc.BadReq = 1 + p.intn(4)
	}
	sc.SrvDebug = sc.SrvKind == 0 && p.intn(2) == 0
	sc.SrvShared = sc.SrvKind == 2 && !sc.Flate && p.intn(2) == 0
	if sc.Exact && p.intn(2) == 0 {
		sc.WinBits = 9 + p.intn(7)
	}
	if p.intn(5) == 0 {
		sc.Steps = append(sc.Steps, exchange{Kind: exBadText, FromCli: p.intn(2) == 0, Text: true, Size: 3 + p.intn(40), Seed: p.next()})
	}
	// (Drawn last so that the scripts of earlier versions keep their shape.)
	if p.intn(4) == 0 {
		sc.CloseKind = 5
	}
	sc.SrvCloses = p.intn(3) == 0
	sc.DeprExt = sc.SrvKind == 1 && sc.Flate && !sc.Exact && p.intn(3) == 0
	if sc.Steps[len(sc.Steps)-1].Kind != exBadText && p.intn(6) == 0 {
		sc.Steps = append(sc.Steps, exchange{Kind: exCutPing, FromCli: p.intn(2) == 0, PingLen: []int{1, 2, 60, 63, 64, 100, 125}[p.intn(7)], Seed: p.next()})
	}
	return sc
}

// Broadcast is one message every session of the run may send: the same slice,
// as an application fanning a message out to its connections would pass it.
// Rebuilt by the driver before every run.
var Broadcast []byte

const broadcastText = "to all connections: the same forty-eight bytes.."

func payloadOf(ex exchange) []byte {
	if ex.Kind == exBroadcast {
		return []byte(broadcastText)
	}
	b := make([]byte, ex.Size)
	x := prng{x: ex.Seed}
	if ex.Text {
		for i := range b {
			b[i] = byte('a' + x.next()%26)
		}
		return b
	}
	for i := range b {
		b[i] = byte(x.next())
	}
	return b
}

func sum(b []byte) uint32 {
	h := uint32(2166136261)
	for _, c := range b {
		h = (h ^ uint32(c)) * 16777619
	}
	return h
}

// transcript is the semantic record of one side of a session.
type transcript struct {
	lines []string
}

func (t *transcript) add(format string, a ...interface{}) {
	t.lines = append(t.lines, fmt.Sprintf(format, a...))
}

func optsString(os []httphead.Option) string {
	s := ""
	for i, o := range os {
		if i > 0 {
			s += ", "
		}
		s += string(o.Name)
		o.Parameters.ForEach(func(k, v []byte) bool {
			s += ";" + string(k)
			if len(v) > 0 {
				s += "=" + string(v)
			}
			return true
		})
	}
	return s
}

type side struct {
	hs     ws.Handshake // retained as returned; looked at again at the end
	sc     *script
	conn   net.Conn
	client bool
	tr     *transcript
	flate  bool // negotiated
	state  ws.State
	own    []byte               // a write buffer the session owns and reuses
	fw     *wsflate.Writer      // the session's compression writer on the default helper's compressor: Reset, Write, Flush, Close per message
	cw     *wsutil.CipherWriter // the session's CipherWriter, re-armed with Reset for every frame it sends that way
	kept   []keptBuf
}

// keptBuf is a buffer the session handed to a non-mutating write API and
// still owns afterwards.
type keptBuf struct {
	step int
	buf  []byte
	sum  uint32
}

func ceilPow2(n int) int {
	c := 128
	for c < n {
		c <<= 1
	}
	return c
}

func flateCompressor(w io.Writer) wsflate.Compressor {
	return wsflate.DefaultHelper.Compressor(w)
}

// helloConn records what is written and never answers.
type helloConn struct {
	out []byte
}

func (c *helloConn) Write(p []byte) (int, error) {
	c.out = append(c.out, p...)
	PoolYield()
	return len(p), nil
}
func (c *helloConn) Read(p []byte) (int, error)       { PoolYield(); return 0, io.EOF }
func (c *helloConn) Close() error                     { return nil }
func (c *helloConn) LocalAddr() net.Addr              { return addr{} }
func (c *helloConn) RemoteAddr() net.Addr             { return addr{} }
func (c *helloConn) SetDeadline(time.Time) error      { return nil }
func (c *helloConn) SetReadDeadline(time.Time) error  { return nil }
func (c *helloConn) SetWriteDeadline(time.Time) error { return nil }

// sniOf extracts the server_name of a TLS ClientHello record.
func sniOf(b []byte) string {
	if len(b) < 5+4+2+32+1 || b[0] != 0x16 || b[5] != 0x01 {
		return "?not-a-client-hello"
	}
	p := b[5+4+2+32:]
	skip := func(lenBytes int) bool {
		if len(p) < lenBytes {
			return false
		}
		n := 0
		for i := 0; i < lenBytes; i++ {
			n = n<<8 | int(p[i])
		}
		if len(p) < lenBytes+n {
			return false
		}
		p = p[lenBytes+n:]
		return true
	}
	if !skip(1) || !skip(2) || !skip(1) || len(p) < 2 {
		return "?short"
	}
	p = p[2:]
	for len(p) >= 4 {
		typ, n := int(p[0])<<8|int(p[1]), int(p[2])<<8|int(p[3])
		if len(p) < 4+n {
			break
		}
		if typ == 0 && n >= 5 {
			l := int(p[4+3])<<8 | int(p[4+4])
			if 4+5+l <= len(p) {
				return string(p[4+5 : 4+5+l])
			}
		}
		p = p[4+n:]
	}
	return ""
}

// wssProbe dials wss://<own host> with the default TLS client (no TLSConfig,
// no TLSClient) over a transport that records the ClientHello and then ends:
// the server name sent must be this session's host, whatever other sessions
// dialed before or meanwhile.
func wssProbe(sc *script, tr *transcript) {
	host := fmt.Sprintf("host-%d.example", sc.Seed%100000)
	hc := &helloConn{}
	var addrs []string
	d := ws.Dialer{NetDial: func(ctx context.Context, network, addr string) (net.Conn, error) {
		addrs = append(addrs, addr)
		return hc, nil
	}}
	// The same host over ws:// and wss://, in an order that depends on the
	// session: each goes to the default port of its scheme.
	schemes := []string{"wss", "ws"}
	if sc.Seed%2 == 1 {
		schemes = []string{"ws", "wss"}
	}
	for _, scheme := range schemes {
		hc.out = nil
		_, _, _, err := d.Dial(context.Background(), scheme+"://"+host+"/")
		if scheme == "wss" {
			tr.add("wss probe: dialed %s, ClientHello server_name=%q, failed=%v", host, sniOf(hc.out), err != nil)
		}
	}
	want := []string{host + ":443", host + ":80"}
	if schemes[0] == "ws" {
		want[0], want[1] = want[1], want[0]
	}
	if len(addrs) != 2 || addrs[0] != want[0] || addrs[1] != want[1] {
		tr.add("probe: NetDial was asked for the wrong address: %q, expected %q", addrs, want)
	}
}

// longValue is a header value longer than the default I/O buffer (4096) and
// shorter than two of them, different per session.
func longValue(seed uint64) string {
	n := 4200 + int(seed%3000)
	b := make([]byte, n)
	x := prng{x: seed}
	for i := range b {
		b[i] = byte('a' + x.next()%26)
	}
	return string(b)
}

func dialHost(sc *script) string { return fmt.Sprintf("s%d.sim", sc.Seed) }

// SharedDebugDialer is rebuilt by the driver before every run, with the
// connections of the run's sessions behind NetDial (a map only read while
// tasks run). Its callbacks keep nothing.
var SharedDebugDialer *wsutil.DebugDialer

func NewSharedDebugDialer(conns map[string]net.Conn) *wsutil.DebugDialer {
	return &wsutil.DebugDialer{
		Dialer: ws.Dialer{NetDial: func(ctx context.Context, network, addr string) (net.Conn, error) {
			c := conns[addr]
			if c == nil {
				return nil, fmt.Errorf("sim: no such host %q", addr)
			}
			return c, nil
		}},
		OnRequest:  func(b []byte) { _ = sum(b) },
		OnResponse: func(b []byte) { _ = sum(b) },
	}
}

// SharedDebugUpgrader is the debugging upgrader all plain server sessions of
// a run may share (rebuilt by the driver before every run; its callbacks keep
// nothing).
var SharedDebugUpgrader *wsutil.DebugUpgrader

func NewSharedDebugUpgrader() *wsutil.DebugUpgrader {
	return &wsutil.DebugUpgrader{
		OnRequest:  func(b []byte) { _ = sum(b) },
		OnResponse: func(b []byte) { _ = sum(b) },
	}
}

// SharedFlateDialer is rebuilt by the driver before every run.
var SharedFlateDialer *ws.Dialer

// NewSharedDialer builds the dialer all compressing sessions of a run share:
// its offer differs from what servers answer.
func NewSharedDialer() *ws.Dialer {
	offer := httphead.Option{Name: []byte("permessage-deflate")}
	offer.Parameters.Set([]byte("client_max_window_bits"), nil)
	// A further extension of the application's own with more parameters than
	// an option holds inline, in an order of its own.
	own := httphead.Option{Name: []byte("x-sim-ext")}
	for _, k := range []string{"p9", "p3", "p7", "p1", "p10", "p0", "p5", "p2", "p8", "p4"} {
		own.Parameters.Set([]byte(k), []byte("v"+k))
	}
	return &ws.Dialer{Extensions: []httphead.Option{offer, wsflate.DefaultParameters.Option(), own}}
}

// runClient is the client task of a session.
func runClient(sc *script, conn net.Conn, tr *transcript) {
	s := &side{sc: sc, conn: conn, client: true, tr: tr, state: ws.StateClientSide}
	if sc.WSS {
		wssProbe(sc, tr)
	}
	if sc.BadReq > 0 {
		req := map[int]string{
			1: "GET /session/bad HTTP/1.1\r\nHost: example.com\r\nConnection: Upgrade\r\nSec-WebSocket-Version: 13\r\nSec-WebSocket-Key: dGhlIHNhbXBsZSBub25jZQ==\r\n\r\n",
			2: "GET /session/bad HTTP/1.1\r\nHost: example.com\r\nUpgrade: websocket\r\nConnection: Upgrade\r\nSec-WebSocket-Version: 12\r\nSec-WebSocket-Key: dGhlIHNhbXBsZSBub25jZQ==\r\n\r\n",
			3: "POST /session/bad HTTP/1.1\r\nHost: example.com\r\nUpgrade: websocket\r\nConnection: Upgrade\r\nSec-WebSocket-Version: 13\r\nSec-WebSocket-Key: dGhlIHNhbXBsZSBub25jZQ==\r\n\r\n",
			4: "GET /session/unwelcome HTTP/1.1\r\nHost: example.com\r\nUpgrade: websocket\r\nConnection: Upgrade\r\nSec-WebSocket-Version: 13\r\nSec-WebSocket-Key: dGhlIHNhbXBsZSBub25jZQ==\r\n\r\n",
		}[sc.BadReq]
		conn.Write([]byte(req))
		resp, err := http.ReadResponse(bufio.NewReader(conn), nil)
		if err != nil {
			tr.add("rejection: no response: %v", err)
			return
		}
		body, _ := io.ReadAll(resp.Body)
		if sc.BadReq == 4 {
			tr.add("rejection by the hook: status=%d body=%q", resp.StatusCode, body)
			return
		}
		want := fmt.Sprint(sc.Seed)
		tr.add("rejection: status=%d x-session=%q (own=%v) body=%q", resp.StatusCode, resp.Header.Get("X-Session"), resp.Header.Get("X-Session") == want, body)
		return
	}
	if sc.Vanish > 0 {
		// A client that goes away in the middle of its request.
		lines := []string{"GET /session/gone HTTP/1.1\r\n", "Host: example.com\r\n", "Upgrade: websocket\r\n", "Connection: Upgrade\r\n", "Sec-WebSocket-Version: 13\r\n"}
		for _, l := range lines[:sc.Vanish] {
			conn.Write([]byte(l))
		}
		conn.Close()
		tr.add("vanished after %d request lines", sc.Vanish)
		return
	}
	d := ws.Dialer{Protocols: sc.Protocols}
	if sc.Flate {
		// Like an application would: one configured Dialer value (and its
		// Extensions slice) shared by every connection it opens.
		d = *SharedFlateDialer
		d.Protocols = sc.Protocols
		if sc.Exact {
			d.Extensions = []httphead.Option{sessionParams(sc).Option()}
		}
	}
	u, _ := url.Parse(fmt.Sprintf("ws://example.com/session/%d", sc.Seed%1000))
	var (
		br  *bufio.Reader
		hs  ws.Handshake
		err error
	)
	switch {
	case sc.Debug:
		// Like an application with one configured debugging dialer for all
		// its connections.
		_, br, hs, err = SharedDebugDialer.Dial(context.Background(), fmt.Sprintf("ws://%s/session/%d", dialHost(sc), sc.Seed%1000))
	case sc.LongHdr:
		d.Header = ws.HandshakeHeaderString("Cookie: " + longValue(sc.Seed) + "\r\nX-After: " + fmt.Sprint(sc.Seed%97) + "\r\n")
		br, hs, err = d.Upgrade(conn, u)
	case len(sc.Protocols) == 0 && !sc.Flate:
		br, hs, err = ws.DefaultDialer.Upgrade(conn, u)
	default:
		br, hs, err = d.Upgrade(conn, u)
	}
	if br != nil {
		// The server's first frames arrived together with the response:
		// take them out of the pooled buffer and read them first.
		pre := make([]byte, br.Buffered())
		io.ReadFull(br, pre)
		ws.PutReader(br)
		s.conn = &prefixConn{Conn: conn, pre: pre}
	}
	tr.add("handshake: protocol=%q extensions=%q err=%v", hs.Protocol, optsString(hs.Extensions), err)
	if err != nil {
		return
	}
	s.flate = len(hs.Extensions) > 0
	s.hs = hs
	s.run()
	tr.add("final: protocol=%q extensions=%q", s.hs.Protocol, optsString(s.hs.Extensions))
}

// prefixConn reads pre before the connection.
type prefixConn struct {
	net.Conn
	pre []byte
}

func (c *prefixConn) Read(p []byte) (int, error) {
	if len(c.pre) > 0 {
		n := copy(p, c.pre)
		c.pre = c.pre[n:]
		return n, nil
	}
	return c.Conn.Read(p)
}

type hijackRW struct {
	conn net.Conn
	br   *bufio.Reader
	h    http.Header
}

func (w *hijackRW) Header() http.Header         { return w.h }
func (w *hijackRW) Write(p []byte) (int, error) { return w.conn.Write(p) }
func (w *hijackRW) WriteHeader(int)             {}
func (w *hijackRW) Hijack() (net.Conn, *bufio.ReadWriter, error) {
	return w.conn, bufio.NewReadWriter(w.br, bufio.NewWriter(w.conn)), nil
}

// bufRWConn is the connection as an application holds it after a hijack:
// behind a *bufio.ReadWriter, which it keeps using after the upgrade.
type bufRWConn struct {
	net.Conn
	rw *bufio.ReadWriter
}

func (c *bufRWConn) Read(p []byte) (int, error) { return c.rw.Read(p) }
func (c *bufRWConn) Write(p []byte) (int, error) {
	n, err := c.rw.Write(p)
	if err == nil {
		err = c.rw.Flush()
	}
	return n, err
}

// SharedRejection is the application's one rejection value (status-less).
var SharedRejection = ws.RejectConnectionError()

// runServer is the server task of a session.
func runServer(sc *script, conn net.Conn, tr *transcript) {
	s := &side{sc: sc, conn: conn, client: false, tr: tr, state: ws.StateServerSide}
	// Some servers hand the upgrader the *bufio.ReadWriter they hold the
	// connection behind (buffers of the default size, which is also a size the
	// library's own pools keep) and go on using it afterwards.
	var upgradeOn io.ReadWriter = conn
	afterUpgrade := func() {}
	if sc.Seed%5 == 2 && sc.BadReq == 0 && sc.Vanish == 0 {
		rw := bufio.NewReadWriter(bufio.NewReaderSize(conn, 4096), bufio.NewWriterSize(conn, 4096))
		upgradeOn = rw
		afterUpgrade = func() {
			rw.Flush()
			s.conn = &bufRWConn{Conn: conn, rw: rw}
		}
	}
	var (
		hs  ws.Handshake
		err error
	)
	accept := func(p string) bool { return p == "superchat" || p == "chat" }
	if sc.BadReq == 4 {
		// The application refuses the client in a hook, with the one
		// rejection value all its connections share (no status of its own:
		// the library's default applies). The value stays the application's.
		u := ws.Upgrader{OnRequest: func(uri []byte) error { return SharedRejection }}
		_, err = u.Upgrade(conn)
		tr.add("handshake refused by the hook: %v", err)
		if rej, ok := SharedRejection.(*ws.ConnectionRejectedError); !ok || rej.StatusCode() != 0 {
			tr.add("the application's shared rejection value is not intact: %#v", SharedRejection)
		}
		return
	}
	if sc.BadReq > 0 {
		u := ws.Upgrader{Header: ws.HandshakeHeaderString(fmt.Sprintf("X-Session: %d\r\n", sc.Seed))}
		_, err = u.Upgrade(conn)
		tr.add("handshake refused: %v", err)
		return
	}
	switch {
	case sc.SrvKind == 0 && sc.SrvDebug:
		hs, err = SharedDebugUpgrader.Upgrade(conn)
	}
	switch sc.SrvKind {
	case 0:
		if !sc.SrvDebug {
			hs, err = ws.Upgrade(upgradeOn)
			afterUpgrade()
		}
	case 1:
		ext := wsflate.Extension{Parameters: sessionParams(sc)}
		u := ws.Upgrader{Protocol: func(p []byte) bool { return accept(string(p)) }}
		if sc.Flate {
			u.Negotiate = ext.Negotiate
		}
		if sc.DeprExt {
			u.Negotiate = nil
			u.Extension = func(o httphead.Option) bool { return string(o.Name) == wsflate.ExtensionName }
		}
		if sc.LongHdr {
			want := longValue(sc.Seed)
			u.Header = ws.HandshakeHeaderString("Set-Cookie: " + longValue(sc.Seed+1) + "\r\n")
			u.OnHeader = func(k, v []byte) error {
				switch string(k) {
				case "Cookie":
					pbytes.Put(pbytes.GetLen(4096 + int(sc.Seed%4000))) // a scheduling point while the line is in use
					tr.add("handshake: long Cookie line arrived intact=%v", string(v) == want)
				case "X-After":
					tr.add("handshake: header after the long line: %q", v)
				}
				return nil
			}
		}
		hs, err = u.Upgrade(upgradeOn)
		afterUpgrade()
	case 3:
		var seen []httphead.Option // semantic copies, taken while the views are valid
		u := ws.Upgrader{
			// Zero-copy parsing: the options alias the request bytes, which the
			// API allows ("valid until Upgrade returns").
			ExtensionCustom: func(h []byte, dst []httphead.Option) ([]httphead.Option, bool) {
				out, ok := httphead.ParseOptions(h, dst)
				for _, o := range out[len(dst):] {
					seen = append(seen, o.Clone())
				}
				return out, ok
			},
			OnBeforeUpgrade: func() (ws.HandshakeHeader, error) {
				pbytes.Put(pbytes.GetLen(300)) // a scheduling point inside Upgrade
				return nil, nil
			},
		}
		hs, err = u.Upgrade(conn)
		// The returned options are views that are no longer valid once Upgrade
		// has returned: they are not looked at; the copies are.
		hs.Extensions = seen
	default:
		br := bufio.NewReader(conn)
		req, rerr := http.ReadRequest(br)
		if rerr != nil {
			tr.add("handshake: http.ReadRequest: %v", rerr)
			return
		}
		ext := wsflate.Extension{Parameters: sessionParams(sc)}
		u := ws.HTTPUpgrader{Protocol: accept}
		if sc.Flate {
			u.Negotiate = ext.Negotiate
		}
		if sc.SrvShared {
			// Like an application with one configured upgrader for all its
			// handlers.
			_, _, hs, err = SharedHTTPUpgrader.Upgrade(req, &hijackRW{conn: conn, br: br, h: http.Header{}})
			if h := SharedHTTPUpgrader.Header; len(h) != 1 || len(h["X-Server"]) != 1 || h["X-Server"][0] != "sim" {
				tr.add("handshake: the shared upgrader's configured Header is not intact: %v", h)
			}
		} else if len(sc.Protocols) == 0 && !sc.Flate {
			_, _, hs, err = ws.UpgradeHTTP(req, &hijackRW{conn: conn, br: br, h: http.Header{}})
		} else {
			_, _, hs, err = u.Upgrade(req, &hijackRW{conn: conn, br: br, h: http.Header{}})
		}
	}
	if sc.Vanish > 0 {
		tr.add("handshake with a client that vanished: failed=%v", err != nil)
		return
	}
	tr.add("handshake: protocol=%q extensions=%q err=%v", hs.Protocol, optsString(hs.Extensions), err)
	if err != nil {
		return
	}
	s.flate = len(hs.Extensions) > 0
	s.hs = hs
	s.run()
	tr.add("final: protocol=%q extensions=%q", s.hs.Protocol, optsString(s.hs.Extensions))
}

func (s *side) run() {
	for i, ex := range s.sc.Steps {
		if ex.Kind == exBadText {
			s.badText(i, ex)
			return
		}
		if ex.Kind == exCutPing {
			s.cutPing(i, ex)
			return
		}
		if ex.FromCli == s.client {
			if !s.send(i, ex) {
				return
			}
		} else {
			if !s.receive(i, ex) {
				return
			}
		}
	}
	for _, k := range s.kept {
		if sum(k.buf) != k.sum {
			s.tr.add("step %d: a buffer the session owns (handed to CipherWriter.Write) was modified later", k.step)
		}
	}
	// Closing handshake: the client starts it, or the server (SrvCloses).
	code, reason := ws.StatusCode(s.sc.CloseCode), "bye"
	switch s.sc.CloseKind {
	case 1:
		reason = string(bytes.Repeat([]byte("r"), 70+int(s.sc.Seed%50)))
	case 2:
		code, reason = 1005, string(bytes.Repeat([]byte("x"), 61+int(s.sc.Seed%60)))
	case 3:
		reason = string(bytes.Repeat([]byte("y"), 80)) + "\xff\xfe"
	case 4:
		reason = ""
		if code > 1001 {
			code = 1000
		}
	case 5:
		code, reason = ws.StatusNoStatusRcvd, "" // what the receiver is told about a close without a status code
	}
	if s.client != s.sc.SrvCloses {
		// This side starts the closing handshake.
		body := ws.NewCloseFrameBody(code, reason)
		if s.sc.CloseKind == 5 {
			body = nil
		}
		f := ws.NewCloseFrame(body)
		if s.client {
			f = ws.MaskFrameInPlace(f)
		}
		if err := ws.WriteFrame(s.conn, f); err != nil {
			s.tr.add("close: write: %v", err)
			return
		}
		_, _, err := s.readData()
		s.tr.add("close: %v", err)
		return
	}
	_, _, err := s.readData()
	s.tr.add("close: %v", err)
	// What this side is told about a valid close is what the peer sent
	// (looked at a little later, like an application that logs it).
	if k := s.sc.CloseKind; k == 0 || k == 1 || k == 4 || k == 5 {
		pbytes.Put(pbytes.GetLen(100)) // a scheduling point (and some pool traffic) before the look
		var ce wsutil.ClosedError
		if !errors.As(err, &ce) || ce.Code != code || ce.Reason != reason {
			s.tr.add("close: wrong close report: got %v, the client sent code %d and a %d byte reason", err, code, len(reason))
		}
	}
}

// cutPing: the sender's last act is a ping whose payload never arrives in
// full: it closes its connection in the middle of the frame. The receiver's
// read helper must fail. Nobody waits for anybody afterwards.
func (s *side) cutPing(i int, ex exchange) {
	if ex.FromCli == s.client {
		h := ws.Header{Fin: true, OpCode: ws.OpPing, Length: int64(ex.PingLen)}
		part := bytes.Repeat([]byte{byte(ex.Seed)}, int(ex.Seed>>8)%ex.PingLen)
		if s.client {
			h.Masked, h.Mask = true, ws.NewMask()
			ws.Cipher(part, h.Mask, 0)
		}
		err := ws.WriteHeader(s.conn, h)
		if err == nil && len(part) > 0 {
			_, err = s.conn.Write(part)
		}
		s.conn.Close()
		s.tr.add("step %d: sent %d of %d payload bytes of a ping and closed the connection: %v", i, len(part), ex.PingLen, err)
		return
	}
	_, _, err := s.readData()
	s.tr.add("step %d recv cut ping: failed=%v eof=%v", i, err != nil, err == io.EOF)
}

// badText: the sender's text message ends inside a multi-byte character; the
// receiver's read helper must refuse it. Nobody waits for anybody afterwards.
func (s *side) badText(i int, ex exchange) {
	if ex.FromCli == s.client {
		p := payloadOf(ex)
		p = append(p, [][]byte{{0xe2, 0x82}, {0xf0, 0x9f, 0x98}, {0xc3}}[ex.Seed%3]...)
		s.tr.add("step %d: sent a text message ending inside a character: %v", i, s.writeMsg(ws.OpText, p))
		return
	}
	// (How much of the refused message comes back with the error depends on
	// the chunking; it is not a result.)
	_, _, err := s.readData()
	s.tr.add("step %d recv bad text: err=%v", i, err)
}

// ownHelper is the session's own Helper value: its compression level depends
// on the session.
func ownHelper(sc *script) (*wsflate.Helper, int) {
	level := []int{0, 1, 5}[sc.Seed%3]
	return &wsflate.Helper{
		Compressor:   func(w io.Writer) wsflate.Compressor { f, _ := flate.NewWriter(w, level); return f },
		Decompressor: func(r io.Reader) wsflate.Decompressor { return flate.NewReader(r) },
	}, level
}

func (s *side) writeMsg(op ws.OpCode, p []byte) error {
	if s.client {
		if op == ws.OpText {
			return wsutil.WriteClientText(s.conn, p)
		}
		return wsutil.WriteClientBinary(s.conn, p)
	}
	if op == ws.OpText {
		return wsutil.WriteServerText(s.conn, p)
	}
	return wsutil.WriteServerMessage(s.conn, op, p)
}

func (s *side) readData() ([]byte, ws.OpCode, error) {
	if s.client {
		return wsutil.ReadServerData(s.conn)
	}
	return wsutil.ReadClientData(s.conn)
}

func opOf(ex exchange) ws.OpCode {
	if ex.Text {
		return ws.OpText
	}
	return ws.OpBinary
}

func (s *side) send(i int, ex exchange) bool {
	p := payloadOf(ex)
	keep := sum(p)
	var err error
	switch ex.Kind {
	case exMsg:
		err = s.writeMsg(opOf(ex), p)
	case exWriter:
		w := wsutil.GetWriter(s.conn, s.state, opOf(ex), ex.BufSize)
		// (How the message will be cut into frames follows from the room the
		// writer offers: part of what the session observes.)
		s.tr.add("step %d: GetWriter(%d) offers %d bytes per frame", i, ex.BufSize, w.Size())
		_, err = w.Write(p)
		if err == nil {
			err = w.Flush()
		}
		wsutil.PutWriter(w)
	case exPingMsg:
		f := ws.NewPingFrame(bytes.Repeat([]byte{byte(ex.Seed)}, ex.PingLen))
		if s.client {
			f = ws.MaskFrameInPlace(f)
		}
		if err = ws.WriteFrame(s.conn, f); err == nil {
			err = s.writeMsg(opOf(ex), p)
		}
	case exCompiled:
		if _, err = s.conn.Write(ws.CompiledPing); err == nil {
			err = s.writeMsg(opOf(ex), p)
		}
	case exCompressed:
		var f ws.Frame
		f, err = wsflate.CompressFrame(ws.NewFrame(opOf(ex), true, p))
		if err == nil {
			if s.client {
				f = ws.MaskFrameInPlace(f)
			}
			err = ws.WriteFrame(s.conn, f)
		}
	case exOwnHelper:
		h, level := ownHelper(s.sc)
		var f ws.Frame
		f, err = h.CompressFrame(ws.NewFrame(opOf(ex), true, p))
		if err == nil {
			// What a compressor of that level emits for these calls.
			var ref bytes.Buffer
			rw := wsflate.NewWriter(&ref, h.Compressor)
			rw.Write(p)
			rw.Flush()
			rw.Close()
			if !bytes.Equal(f.Payload, ref.Bytes()) {
				s.tr.add("step %d: the session's own Helper (level %d) produced %d bytes, its compressor emits %d", i, level, len(f.Payload), ref.Len())
			}
			if s.client {
				f = ws.MaskFrameInPlace(f)
			}
			err = ws.WriteFrame(s.conn, f)
		}
	case exBroadcast:
		if string(Broadcast) != broadcastText {
			s.tr.add("step %d: the shared broadcast message is not intact before this session sends it", i)
		}
		err = wsutil.WriteClientText(s.conn, Broadcast)
		if string(Broadcast) != broadcastText {
			s.tr.add("step %d: the shared broadcast message is not intact after this session sent it", i)
		}
	case exCipher:
		// The payload lives in a buffer of the session whose capacity happens
		// to be one of the pool's size classes; the session keeps it.
		own := make([]byte, len(p), ceilPow2(len(p)))
		copy(own, p)
		h := ws.Header{Fin: true, OpCode: opOf(ex), Masked: true, Mask: ws.NewMask(), Length: int64(len(own))}
		if err = ws.WriteHeader(s.conn, h); err == nil {
			if s.cw == nil {
				s.cw = wsutil.NewCipherWriter(s.conn, h.Mask)
			} else {
				s.cw.Reset(s.conn, h.Mask)
			}
			// (In two pieces when there is enough of it.)
			if k := len(own) / 3; k > 0 {
				if _, err = s.cw.Write(own[:k]); err == nil {
					_, err = s.cw.Write(own[k:])
				}
			} else {
				_, err = s.cw.Write(own)
			}
		}
		if sum(own) != keep {
			s.tr.add("step %d: the caller's payload was modified by the write", i)
		}
		s.kept = append(s.kept, keptBuf{i, own, keep})
	case exOwnBuf:
		if s.own == nil {
			s.own = make([]byte, 256)
		}
		w := wsutil.NewWriterBuffer(s.conn, s.state, opOf(ex), s.own)
		w.DisableFlush()
		_, err = w.Write(p)
		if err == nil {
			err = w.Flush()
		}
	case exStack:
		var ms wsflate.MessageState
		ms.SetCompressed(true)
		w := wsutil.GetWriter(s.conn, s.state|ws.StateExtended, opOf(ex), ex.BufSize)
		s.tr.add("step %d: GetWriter(%d) offers %d bytes per frame", i, ex.BufSize, w.Size())
		w.SetExtensions(&ms)
		fw := wsflate.NewWriter(w, flateCompressor)
		if s.sc.Seed%3 == 0 {
			// A long-lived compression writer of the session, built on the
			// default helper's compressor and closed after every message.
			if s.fw == nil {
				s.fw = wsflate.NewWriter(w, wsflate.DefaultHelper.Compressor)
			} else {
				s.fw.Reset(w)
			}
			fw = s.fw
		}
		_, err = fw.Write(p)
		if err == nil {
			err = fw.Flush()
		}
		if err == nil && fw == s.fw {
			err = fw.Close()
		}
		if err == nil {
			err = w.Flush()
		}
		wsutil.PutWriter(w)
	}
	if sum(p) != keep {
		s.tr.add("step %d: the caller's payload was modified by the write", i)
	}
	if err != nil {
		s.tr.add("step %d send kind=%d: %v", i, ex.Kind, err)
		return false
	}
	// Wait for the ack.
	ack, op, err := s.readData()
	s.tr.add("step %d ack: op=%d %q err=%v", i, op, ack, err)
	return err == nil
}

func (s *side) receive(i int, ex exchange) bool {
	var (
		data []byte
		op   ws.OpCode
		err  error
	)
	switch ex.Kind {
	case exCompressed, exOwnHelper:
		var f ws.Frame
		f, err = ws.ReadFrame(s.conn)
		if err == nil {
			if f.Header.Masked {
				f = ws.UnmaskFrameInPlace(f)
			}
			f, err = wsflate.DecompressFrame(f)
		}
		data, op = f.Payload, f.Header.OpCode
	case exStack:
		var ms wsflate.MessageState
		rd := &wsutil.Reader{Source: s.conn, State: s.state | ws.StateExtended, Extensions: []wsutil.RecvExtension{&ms},
			OnIntermediate: wsutil.ControlFrameHandler(s.conn, s.state)}
		var h ws.Header
		h, err = rd.NextFrame()
		if err == nil {
			op = h.OpCode
			if !ms.IsCompressed() {
				err = fmt.Errorf("message state says uncompressed")
			} else {
				fr := wsflate.NewReader(rd, func(r io.Reader) wsflate.Decompressor { return wsflate.DefaultHelper.Decompressor(r) })
				data, err = io.ReadAll(fr)
				if err == nil {
					_, err = io.Copy(io.Discard, rd)
					if err == wsutil.ErrNoFrameAdvance {
						err = nil
					}
				}
			}
		}
	default:
		data, op, err = s.readData()
	}
	want := payloadOf(ex)
	s.tr.add("step %d recv kind=%d: op=%d len=%d sum=%08x match=%v err=%v", i, ex.Kind, op, len(data), sum(data), bytes.Equal(data, want), err)
	if err != nil {
		return false
	}
	ack := []byte(fmt.Sprintf("ack %d %d %08x", i, len(data), sum(data)))
	if err := s.writeMsg(ws.OpBinary, ack); err != nil {
		s.tr.add("step %d ack write: %v", i, err)
		return false
	}
	return true
}
