//go:build !race

package multi

const raceEnabled = false
