//go:build race

package multi

const raceEnabled = true
