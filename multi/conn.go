package multi

import (
	"errors"
	"io"
	"net"
	"time"

	"verif/sim"
)

const ringCap = 1 << 20

var errClosedConn = errors.New("sim: use of closed connection")

// ring is one direction of a connection.
type ring struct {
	buf    []byte
	r, w   int64 // total bytes read / written
	closed bool  // no more bytes will come
	gone   bool  // the reading end has left: bytes written from now on go nowhere (the writer is not told)
	waiter int   // task blocked reading, -1 none
	writes int64
}

// Conn is one endpoint of a simulated duplex connection between two tasks.
type Conn struct {
	left    bool // this endpoint was closed by its owner
	s       *Sched
	rx, tx  *ring
	id      int
	segMode int // 0: everything available, 1: tape-chosen prefix, 2: one byte
	reads   int64
}

//go:norace
func (s *Sched) newRing() *ring {
	return &ring{buf: make([]byte, ringCap), waiter: -1}
}

// Pipe creates a connected pair of endpoints.
func (s *Sched) Pipe(segMode int) (*Conn, *Conn) {
	a, b := s.newRing(), s.newRing()
	c1 := &Conn{s: s, rx: a, tx: b, id: s.nconns, segMode: segMode}
	c2 := &Conn{s: s, rx: b, tx: a, id: s.nconns + 1, segMode: segMode}
	s.conns[s.nconns] = c1
	s.conns[s.nconns+1] = c2
	s.nconns += 2
	return c1, c2
}

//go:norace
func (c *Conn) Read(p []byte) (int, error) {
	s := c.s
	s.Yield(1)
	if len(p) == 0 {
		return 0, nil
	}
	for {
		avail := int(c.rx.w - c.rx.r)
		if avail > 0 {
			k := avail
			if k > len(p) {
				k = len(p)
			}
			switch c.segMode {
			case 1:
				k = 1 + s.tape.Int(sim.LSeg, k)
			case 2:
				if c.reads < 256 {
					k = 1 // the first reads of a connection: byte by byte
				}
			}
			base := int(c.rx.r % ringCap)
			for i := 0; i < k; i++ {
				p[i] = c.rx.buf[(base+i)%ringCap]
			}
			c.rx.r += int64(k)
			c.reads++
			s.dig.Add(uint64(c.id)<<40 | uint64(k)<<8 | 1)
			return k, nil
		}
		if c.rx.closed {
			s.dig.Add(uint64(c.id)<<40 | 0xE0)
			return 0, io.EOF
		}
		c.rx.waiter = s.cur
		s.block()
		c.rx.waiter = -1
	}
}

//go:norace
func (c *Conn) Write(p []byte) (int, error) {
	s := c.s
	s.Yield(1)
	if c.left || (c.tx.closed && !c.tx.gone) {
		return 0, errClosedConn
	}
	if c.tx.gone {
		// The peer has closed its end. Like on a real network the writer does
		// not find out at once: the bytes are accepted and go nowhere. (A
		// script in which one side leaves while the other is still inside its
		// last Write call - the second, empty Write of a frame without payload
		// - must not observe whether the close came first.)
		s.dig.Add(uint64(c.id)<<40 | uint64(len(p))<<8 | 3)
		return len(p), nil
	}
	if int(c.tx.w-c.tx.r)+len(p) > ringCap {
		panic("multi: simulated socket buffer overflow (session script not strictly request/response?)")
	}
	base := int(c.tx.w % ringCap)
	for i := 0; i < len(p); i++ {
		c.tx.buf[(base+i)%ringCap] = p[i]
	}
	c.tx.w += int64(len(p))
	c.tx.writes++
	s.dig.Add(uint64(c.id)<<40 | uint64(len(p))<<8 | 2)
	s.makeRunnable(c.tx.waiter)
	return len(p), nil
}

// forceClose ends both directions (deadlock resolution / step budget).
//
//go:norace
func (c *Conn) forceClose() {
	c.rx.closed = true
	c.tx.closed = true
	c.s.makeRunnable(c.rx.waiter)
	c.s.makeRunnable(c.tx.waiter)
}

// Close: this endpoint leaves (a client that vanishes in the middle of its
// request, a sender that goes away inside a frame).
//
//go:norace
func (c *Conn) Close() error {
	c.s.Yield(1)
	c.left = true
	// The peer reads what is in flight and then the end of the stream; what
	// it still writes is accepted and dropped.
	c.tx.closed = true
	c.rx.gone = true
	c.rx.closed = true
	c.s.makeRunnable(c.tx.waiter)
	c.s.makeRunnable(c.rx.waiter)
	return nil
}

func (c *Conn) LocalAddr() net.Addr                { return addr{} }
func (c *Conn) RemoteAddr() net.Addr               { return addr{} }
func (c *Conn) SetDeadline(t time.Time) error      { return nil }
func (c *Conn) SetReadDeadline(t time.Time) error  { return nil }
func (c *Conn) SetWriteDeadline(t time.Time) error { return nil }

type addr struct{}

func (addr) Network() string { return "sim" }
func (addr) String() string  { return "sim" }
