// Package multi is the engine for C19: N client/server session pairs run as
// tasks under a seeded scheduler whose park/unpark handoff is invisible to the
// Go race detector (raw read(2)/write(2) on pipes inside //go:norace
// functions). Execution is strictly serial and replayable, yet the detector
// still judges the program's own synchronisation (DESIGN §3.3).
//
// Rules for everything tasks share in this package: touched only inside
// //go:norace functions, fixed arrays, no maps, no append/copy (their runtime
// helpers are race-instrumented regardless), no fmt.
package multi

import (
	"sync"
	"syscall"
	"unsafe"

	"verif/sim"
)

const (
	MaxTasks = 24

	stNew      = 0
	stRunnable = 1
	stBlocked  = 2
	stDone     = 3
)

type task struct {
	id       int
	rfd, wfd int
	state    int
	fn       func()
	buf      [1]byte
}

// Sched is the seeded task scheduler.
type Sched struct {
	tape  *sim.Tape
	tasks [MaxTasks]task
	n     int
	cur   int // running task, -1: driver
	stick int // 0: choose freely at every yield; k: keep the current task with probability k/(k+1)

	drvR, drvW int
	drvBuf     [1]byte

	steps    int64
	switches int64
	budget   int64
	hang     bool
	deadlock int
	mutual   int // deadlocks in which every task was still alive

	conns  [MaxTasks]*Conn
	nconns int

	dig sim.Digest
	wg  sync.WaitGroup
}

// active is the scheduler of the run in progress (nil outside runs); read by
// the pool yield hook.
var active *Sched

//go:norace
func getActive() *Sched { return active }

//go:norace
func setActive(s *Sched) { active = s }

// PoolYield is installed once as simctl.Yield.
func PoolYield() {
	if s := getActive(); s != nil {
		s.Yield(1)
	}
}

// NewSched creates a scheduler drawing from tape.
func NewSched(tape *sim.Tape, stick int) (*Sched, error) {
	s := &Sched{tape: tape, cur: -1, stick: stick, budget: 400_000}
	var p [2]int
	if err := syscall.Pipe(p[:]); err != nil {
		return nil, err
	}
	s.drvR, s.drvW = p[0], p[1]
	s.dig.Reset()
	return s, nil
}

// Go registers a task (before Run).
func (s *Sched) Go(fn func()) error {
	if s.n >= MaxTasks {
		panic("too many tasks")
	}
	var p [2]int
	if err := syscall.Pipe(p[:]); err != nil {
		return err
	}
	t := &s.tasks[s.n]
	t.id, t.rfd, t.wfd, t.fn, t.state = s.n, p[0], p[1], fn, stRunnable
	s.n++
	return nil
}

//go:norace
func rawRead(fd int, b *byte) {
	for {
		n, _, e := syscall.Syscall(syscall.SYS_READ, uintptr(fd), uintptr(unsafe.Pointer(b)), 1)
		if n == 1 {
			return
		}
		if e == syscall.EINTR || e == syscall.EAGAIN {
			continue
		}
		if e != 0 || n == 0 {
			panic("multi: scheduler pipe read failed")
		}
	}
}

//go:norace
func rawWrite(fd int, b *byte) {
	for {
		n, _, e := syscall.Syscall(syscall.SYS_WRITE, uintptr(fd), uintptr(unsafe.Pointer(b)), 1)
		if n == 1 {
			return
		}
		if e == syscall.EINTR || e == syscall.EAGAIN {
			continue
		}
		panic("multi: scheduler pipe write failed")
	}
}

// Run starts all tasks, runs them to completion one at a time, and joins them.
func (s *Sched) Run() {
	setActive(s)
	for i := 0; i < s.n; i++ {
		t := &s.tasks[i]
		s.wg.Add(1)
		go func() {
			// The only real synchronisation the scheduler adds: a join edge
			// when a task has finished.
			defer s.wg.Done()
			rawRead(t.rfd, &t.buf[0])
			t.fn()
			s.exit(t)
		}()
	}
	s.start()
	rawRead(s.drvR, &s.drvBuf[0])
	s.wg.Wait()
	setActive(nil)
	for i := 0; i < s.n; i++ {
		syscall.Close(s.tasks[i].rfd)
		syscall.Close(s.tasks[i].wfd)
	}
	syscall.Close(s.drvR)
	syscall.Close(s.drvW)
}

//go:norace
func (s *Sched) start() {
	next := s.pick(-1)
	s.cur = next
	rawWrite(s.tasks[next].wfd, &s.drvBuf[0])
}

// pick chooses the next task to run among the runnable ones. self is the
// calling task if it is still runnable, else -1. Returns -1 if none.
//
//go:norace
func (s *Sched) pick(self int) int {
	var cand [MaxTasks]int
	n := 0
	for i := 0; i < s.n; i++ {
		if s.tasks[i].state == stRunnable {
			cand[n] = i
			n++
		}
	}
	if n == 0 {
		return -1
	}
	if self >= 0 && s.stick > 0 && n > 1 {
		if s.tape.Int(sim.LSched, s.stick+1) != 0 {
			return self
		}
	}
	k := s.tape.Int(sim.LSched, n)
	return cand[k]
}

// Yield is a scheduling point of the running task. weight is informational.
//
//go:norace
func (s *Sched) Yield(weight int) {
	if s.cur < 0 {
		return // driver context (between runs)
	}
	s.steps++
	if s.steps > s.budget && !s.hang {
		s.hang = true
		s.closeAll()
	}
	self := s.cur
	next := s.pick(self)
	if next == self || next < 0 {
		return
	}
	s.switchTo(self, next)
}

//go:norace
func (s *Sched) switchTo(self, next int) {
	s.switches++
	s.dig.Add(uint64(self)<<8 | uint64(next))
	s.cur = next
	me := &s.tasks[self]
	rawWrite(s.tasks[next].wfd, &me.buf[0])
	rawRead(me.rfd, &me.buf[0])
}

// block parks the running task until it is made runnable again (by a writer,
// a close, or deadlock resolution).
//
//go:norace
func (s *Sched) block() {
	self := s.cur
	s.tasks[self].state = stBlocked
	next := s.pick(-1)
	if next < 0 {
		// Everyone is blocked: the simulated equivalent of everybody's
		// timeout firing. Close all conns; every blocked reader wakes up
		// with EOF.
		s.deadlock++
		alive := true
		for i := 0; i < s.n; i++ {
			if s.tasks[i].state == stDone {
				alive = false
			}
		}
		if alive {
			s.mutual++ // nobody has left: the tasks wait for each other
		}
		s.closeAll()
		next = s.pick(-1)
		if next < 0 {
			panic("multi: nothing runnable after closing all conns")
		}
	}
	if next == self {
		return
	}
	s.switchTo(self, next)
}

//go:norace
func (s *Sched) exit(t *task) {
	t.state = stDone
	next := s.pick(-1)
	if next < 0 {
		blocked := false
		for i := 0; i < s.n; i++ {
			if s.tasks[i].state == stBlocked {
				blocked = true
			}
		}
		if blocked {
			s.deadlock++
			s.closeAll()
			next = s.pick(-1)
		}
	}
	if next < 0 {
		s.cur = -1
		rawWrite(s.drvW, &t.buf[0])
		return
	}
	s.cur = next
	s.dig.Add(uint64(t.id)<<8 | uint64(next) | 1<<32)
	rawWrite(s.tasks[next].wfd, &t.buf[0])
}

//go:norace
func (s *Sched) closeAll() {
	for i := 0; i < s.nconns; i++ {
		s.conns[i].forceClose()
	}
	// Every parked task looks at its connection again (and finds it closed).
	// A connection only remembers its latest waiter; if a changed tree makes
	// two tasks read the same connection, the other one must not be lost.
	for i := 0; i < s.n; i++ {
		if s.tasks[i].state == stBlocked {
			s.tasks[i].state = stRunnable
		}
	}
}

// Mutual returns how often all tasks were parked while none had finished.
//
//go:norace
func (s *Sched) Mutual() int { return s.mutual }

// Deadlocks returns how often all unfinished tasks were parked (Mutual
// included).
//
//go:norace
func (s *Sched) Deadlocks() int { return s.deadlock }

// Switches returns the number of task switches so far.
//
//go:norace
func (s *Sched) Switches() int64 { return s.switches }

//go:norace
func (s *Sched) makeRunnable(id int) {
	if id >= 0 && s.tasks[id].state == stBlocked {
		s.tasks[id].state = stRunnable
	}
}
