package multi

import (
	"fmt"
	"net"
	"os"
	"strings"

	"github.com/gobwas/pool/simctl"

	"verif/eng"
	"verif/sim"
)

func init() {
	// Set once, before any task exists.
	simctl.Yield = PoolYield
}

type sessResult struct {
	cli, srv transcript
}

type runStats struct {
	steps, switches int64
	deadlocks       int
	hang            bool
	digest          uint64
}

// runSessions runs the given sessions concurrently under one scheduler.
func runSessions(r *eng.Run, scripts []*script, stick, segMode int) ([]*sessResult, runStats) {
	s, err := NewSched(r.T, stick)
	if err != nil {
		r.Internalf("scheduler: %v", err)
	}
	SharedFlateDialer = NewSharedDialer()
	Broadcast = []byte(broadcastText)
	SharedDebugUpgrader = NewSharedDebugUpgrader()
	SharedHTTPUpgrader = NewSharedHTTPUpgrader()
	// Real sync.Pools (the library's own, or ones a change introduces) are a
	// source of nondeterminism the sim pool does not cover: collections are
	// only allowed here, between executions, and two of them empty every
	// sync.Pool, so that each execution starts from the same state. Together
	// with GOMAXPROCS=1 (set by the driver for this engine) a sync.Pool then
	// behaves as a deterministic per-process LIFO.
	eng.Collect()
	res := make([]*sessResult, len(scripts))
	conns := map[string]net.Conn{}
	SharedDebugDialer = NewSharedDebugDialer(conns)
	for i, sc := range scripts {
		i, sc := i, sc
		res[i] = &sessResult{}
		cc, sv := s.Pipe(segMode)
		conns[dialHost(sc)+":80"] = cc
		if err := s.Go(func() { guard(&res[i].cli, func() { runClient(sc, cc, &res[i].cli) }) }); err != nil {
			r.Internalf("task: %v", err)
		}
		if err := s.Go(func() { guard(&res[i].srv, func() { runServer(sc, sv, &res[i].srv) }) }); err != nil {
			r.Internalf("task: %v", err)
		}
	}
	s.Run()
	return res, runStats{steps: s.steps, switches: s.switches, deadlocks: s.deadlock, hang: s.hang, digest: s.dig.Sum()}
}

// guard turns a panic inside a task into a transcript line (the task must
// still reach the scheduler's exit).
func guard(tr *transcript, f func()) {
	defer func() {
		if x := recover(); x != nil {
			tr.add("PANIC: %v", x)
		}
	}()
	f()
}

func diffTr(a, b []string) string {
	for i := 0; i < len(a) || i < len(b); i++ {
		var x, y string
		if i < len(a) {
			x = a[i]
		}
		if i < len(b) {
			y = b[i]
		}
		if x != y {
			return fmt.Sprintf("line %d:\n    among others: %s\n    alone:        %s", i, x, y)
		}
	}
	return ""
}

// C19: concurrent connections do not interfere through the library's shared
// pools, and no data race occurs.
func C19(r *eng.Run) {
	r.SetEntry("sessions")
	raceReports() // reports left unread by a run that stopped at an earlier violation are not ours
	n := 2 + r.T.Int(sim.LSess, 7)
	if r.Tier == "thorough" && r.T.Chance(sim.LSess, 1, 8) {
		n = 9 + r.T.Int(sim.LSess, 3)
	}
	scripts := make([]*script, n)
	for i := range scripts {
		scripts[i] = makeScript(uint64(r.T.U32(sim.LSess))<<20 | uint64(i))
	}
	stick := []int{0, 1, 9}[r.T.Int(sim.LSched, 3)]
	segMode := r.T.Int(sim.LSegMode, 3)
	policy := simctl.Policy()
	r.Note("C19 %d sessions stick=%d seg=%d pool=%d", n, stick, segMode, policy)
	for i, sc := range scripts {
		r.Note("  session %d: srv=%d flate=%v protocols=%v steps=%+v close=%d", i, sc.SrvKind, sc.Flate, sc.Protocols, sc.Steps, sc.CloseCode)
	}

	together, st := runSessions(r, scripts, stick, segMode)
	r.Res.Steps += st.steps
	r.Res.Probes["task_switches"] += st.switches
	r.Res.Probes["sessions"] += int64(n)
	r.D.Add(st.digest)
	r.Res.Nontrivial = st.switches > 0
	if st.hang {
		r.Failf("hang_step_budget", "%d sessions did not finish within the step budget", n)
	}
	checkPoolFaults(r, "concurrent run")
	raceTogether := raceReports()

	for i, sc := range scripts {
		simctl.Reset(policy, 0xA5)
		alone, sst := runSessions(r, []*script{sc}, stick, segMode)
		r.Res.Steps += sst.steps
		if sst.deadlocks > 0 || sst.hang {
			// On the unchanged tree every script completes alone (they are
			// confluent by construction); a session that cannot even finish
			// alone is reported, not swallowed.
			r.Failf("session_alone_fails", "session %d does not complete when run alone: client %v server %v", i, alone[0].cli.lines, alone[0].srv.lines)
		}
		checkPoolFaults(r, "solo run")
		for _, l := range append(append([]string(nil), alone[0].cli.lines...), alone[0].srv.lines...) {
			if strings.HasPrefix(l, "handshake: protocol=") && !strings.HasSuffix(l, "err=<nil>") {
				// Every scripted session is built to succeed when run alone.
				r.Failf("session_alone_wrong", "session %d run alone: %s", i, l)
			}
			if strings.Contains(l, "match=false") || strings.HasPrefix(l, "PANIC") || strings.Contains(l, "payload was modified") || strings.Contains(l, "was modified later") || strings.Contains(l, "intact=false") || strings.Contains(l, "its compressor emits") || strings.Contains(l, "wrong address") || strings.Contains(l, "wrong close report") || strings.Contains(l, "is not intact") || strings.Contains(l, "(own=false)") || strings.Contains(l, "rejection: no response") || strings.Contains(l, "vanished: failed=false") {
				r.Failf("session_alone_wrong", "session %d run alone: %s", i, l)
			}
		}
		// Both peers of a session report the same subprotocol and extensions,
		// at the handshake and when they look again at the end.
		for _, prefix := range []string{"handshake: protocol=", "final: protocol="} {
			var cl, sl string
			for _, l := range alone[0].cli.lines {
				if strings.HasPrefix(l, prefix) {
					cl = l
				}
			}
			for _, l := range alone[0].srv.lines {
				if strings.HasPrefix(l, prefix) {
					sl = l
				}
			}
			if cl != "" && sl != "" && cl != sl {
				r.Failf("session_alone_wrong", "session %d run alone: the peers report different handshake results:\n    client: %s\n    server: %s", i, cl, sl)
			}
		}
		if d := diffTr(together[i].cli.lines, alone[0].cli.lines); d != "" {
			r.Failf("transcript_differs_from_solo", "session %d of %d (client side) observed something else than when run alone, %s", i, n, d)
		}
		if d := diffTr(together[i].srv.lines, alone[0].srv.lines); d != "" {
			r.Failf("transcript_differs_from_solo", "session %d of %d (server side) observed something else than when run alone, %s", i, n, d)
		}
	}
	if st.deadlocks > 0 {
		r.Failf("deadlock_among_sessions", "%d sessions deadlocked although each finishes alone", n)
	}
	reports := append(raceTogether, raceReports()...)
	for _, rep := range reports {
		if strings.Contains(rep, "github.com/gobwas/ws") {
			r.Failf("data_race", "race detector report involving the library:\n%s", trimReport(rep))
		}
	}
	for _, rep := range reports {
		r.Internalf("race detector report without a library frame (harness?):\n%s", trimReport(rep))
	}
	if raceEnabled {
		r.Probe("race_detector_active_runs")
	}
}

func checkPoolFaults(r *eng.Run, when string) {
	for _, f := range simctl.Faults() {
		kind := map[int]string{simctl.FDoublePut: "pool_double_put", simctl.FCanary: "pool_canary_damaged"}[f.Kind]
		r.Failf(kind, "%s: pool %d class %d offset %d", when, f.Pool, f.Size, f.Off)
	}
}

func trimReport(s string) string {
	lines := strings.Split(strings.TrimSpace(s), "\n")
	var keep []string
	for _, l := range lines {
		l = strings.TrimRight(l, " ")
		if l == "" {
			continue
		}
		keep = append(keep, l)
		if len(keep) >= 60 {
			keep = append(keep, "...")
			break
		}
	}
	return strings.Join(keep, "\n")
}

// Race detector log: the driver starts race workers with
// GORACE=log_path=<prefix>; the runtime writes reports to <prefix>.<pid>.
var raceOff int64

func raceReports() []string {
	prefix := os.Getenv("VERIF_RACE_LOG")
	if prefix == "" {
		return nil
	}
	b, err := os.ReadFile(fmt.Sprintf("%s.%d", prefix, os.Getpid()))
	if err != nil || int64(len(b)) <= raceOff {
		return nil
	}
	text := string(b[raceOff:])
	raceOff = int64(len(b))
	var out []string
	for _, part := range strings.Split(text, "==================") {
		if strings.Contains(part, "DATA RACE") {
			out = append(out, part)
		}
	}
	return out
}
