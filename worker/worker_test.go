package worker

import (
	"encoding/json"
	"fmt"
	"os"
	"testing"

	"verif/dial"
	"verif/props"
	"verif/sim"
)

// T is the testing.T of the worker process (engine `dial` needs it for
// synctest).
var T *testing.T

func TestWorker(t *testing.T) {
	T = t
	dial.T = t
	jf := os.Getenv("VERIF_JOB_FILE")
	if jf == "" {
		t.Skip("VERIF_JOB_FILE not set")
	}
	js, err := os.ReadFile(jf)
	if err != nil {
		fmt.Fprintln(os.Stderr, "job file:", err)
		os.Exit(2)
	}
	var j Job
	if err := json.Unmarshal(js, &j); err != nil {
		fmt.Fprintln(os.Stderr, "bad job:", err)
		os.Exit(2)
	}
	spec := props.Find(j.Prop)
	if spec == nil {
		fmt.Fprintln(os.Stderr, "unknown property", j.Prop)
		os.Exit(2)
	}
	var out interface{}
	switch j.Mode {
	case "batch":
		out = runBatch(spec, &j)
	case "replay":
		res := Exec(spec, sim.ReplayTapeCap(j.Tape, tapeCap(spec)), j.Tier, true)
		for i := 0; j.Class != "" && (res.Viol == nil || res.Viol.Class() != j.Class) && i < j.Retries; i++ {
			res = Exec(spec, sim.ReplayTapeCap(j.Tape, tapeCap(spec)), j.Tier, true)
		}
		out = res
	case "shrink":
		out = Shrink(spec, &j)
	default:
		fmt.Fprintln(os.Stderr, "unknown mode", j.Mode)
		os.Exit(2)
	}
	if err := writeJSON(j.Out, out); err != nil {
		fmt.Fprintln(os.Stderr, "write:", err)
		os.Exit(2)
	}
}
