// Package worker is the simulation worker. It is compiled as a test binary
// (`go test -c`) because testing/synctest needs a *testing.T; the driver runs
// it with VERIF_JOB set. It is also compiled with -race for engine `multi`.
package worker

import (
	"encoding/json"
	"hash/fnv"
	"math/rand"
	"os"
	"runtime"
	"strconv"
	"sync"
	"sync/atomic"
	"time"

	"github.com/gobwas/pool/pbytes"
	"github.com/gobwas/pool/simctl"

	"verif/eng"
	"verif/props"
	"verif/sim"
)

// Job is what the driver asks a worker process to do.
type Job struct {
	Mode    string   `json:"mode"` // batch | replay | shrink
	Prop    string   `json:"prop"`
	Tier    string   `json:"tier"`
	Base    uint64   `json:"base"`
	From    int      `json:"from"`
	To      int      `json:"to"`
	Out     string   `json:"out"`
	Tape    []uint32 `json:"tape,omitempty"`
	Class   string   `json:"class,omitempty"`
	MaxExec int      `json:"max_exec,omitempty"`
	MaxSec  int      `json:"max_sec,omitempty"`
	Samples int      `json:"samples,omitempty"`
	CapSec  int      `json:"cap_sec,omitempty"`
	Retries int      `json:"retries,omitempty"`
	HangSec int      `json:"hang_sec,omitempty"`
}

// Found is a violating run.
type Found struct {
	Index  int         `json:"index"`
	Seed   uint64      `json:"seed"`
	Result *eng.Result `json:"result"`
}

// BatchOut is the aggregate of a batch.
type BatchOut struct {
	Planned     int              `json:"planned"`
	Executed    int              `json:"executed"`
	Found       []Found          `json:"found,omitempty"`
	Internal    []string         `json:"internal,omitempty"`
	Probes      map[string]int64 `json:"probes"`
	Faults      map[string]int64 `json:"faults"`
	Steps       int64            `json:"steps"`
	FaultPoints int64            `json:"fault_points"`
	FakeNanos   int64            `json:"fake_nanos"`
	Digests     []string         `json:"digests"` // distinct digests of non-trivial runs
	AllDigest   string           `json:"all_digest"`
	Samples     []*eng.Result    `json:"samples,omitempty"`
	WallS       float64          `json:"wall_s"`
	ClassCounts map[string]int   `json:"class_counts,omitempty"`
	RunDigests  []string         `json:"run_digests,omitempty"`
	Hang        *HangInfo        `json:"hang,omitempty"`
}

// HangInfo describes a run that made no progress for HangSec seconds of wall
// clock (an endless loop without I/O never reaches the transports' step
// budget).
type HangInfo struct {
	Index int    `json:"index"`
	Seed  uint64 `json:"seed"`
	Sec   int    `json:"sec"`
	Stack string `json:"stack"`
}

// SeedOf derives the seed of run i.
func SeedOf(base uint64, prop string, i int) uint64 {
	h := fnv.New64a()
	h.Write([]byte(prop))
	return sim.Mix(sim.Mix(base, h.Sum64()), uint64(i))
}

// PoolEpoch: real sync.Pools (the library's own, or ones a change introduces)
// are process state the sim pool does not cover. Collections are switched
// off and only happen at execution boundaries - in a batch before every run
// whose index is a multiple of PoolEpoch, in replays and shrinking before
// every execution - and two of them empty every sync.Pool. On the single P
// the driver gives every worker a sync.Pool is then a deterministic LIFO
// whose content is a function of the runs since the last epoch boundary
// (history replays start at such a boundary).
const PoolEpoch = 16

// Fresh says whether Exec starts from empty sync.Pools.
var Fresh = true

// FreshPools empties every sync.Pool of the process.
func FreshPools() { eng.FreshPools() }

// Exec runs one property run on the given tape.
func Exec(spec *props.Spec, t *sim.Tape, tier string, detail bool) *eng.Result {
	r := eng.NewRun(spec.ID, t, tier, detail)
	if Fresh && spec.Engine != "multi" { // engine multi does the same before each of its executions
		eng.Collect()
	}
	r.Guard(func() {
		// Globals every run depends on, all derived from the tape.
		// Engine multi leaves the global math/rand source unseeded: a seeded
		// source is mutex-protected and would add happens-before edges
		// between tasks at every mask draw (masks never reach a transcript).
		if rs := int64(t.U32(sim.LMisc)) + 1; spec.Engine != "multi" {
			rand.Seed(rs)
		}
		pol := [...]int{simctl.PolicyLIFO, simctl.PolicyLIFO, simctl.PolicyTape, simctl.PolicyFresh}[t.Int(sim.LPool, 4)]
		simctl.Reset(pol, 0xA5)
		simctl.Choose = func(n int) int { return t.Int(sim.LPool, n) }
		spec.Run(r)
		pbytes.DefaultPool.Sweep()
		for _, f := range simctl.Faults() {
			kind := map[int]string{simctl.FDoublePut: "pool_double_put", simctl.FCanary: "pool_canary_damaged"}[f.Kind]
			r.FailProp(poolProp(spec.ID), kind, "pool %d class %d offset %d", f.Pool, f.Size, f.Off)
		}
	})
	r.Res.Probes["pool_get"] += simctl.Counter(simctl.CGet)
	r.Res.Probes["pool_reuse_hit"] += simctl.Counter(simctl.CReuse)
	r.Res.Probes["pool_canary_checked"] += simctl.Counter(simctl.CCanaryChecked)
	return r.Finish()
}

// tapeCap is the number of draws a run of spec may make.
func tapeCap(spec *props.Spec) int {
	if spec.Engine == "multi" {
		return 1 << 21
	}
	return sim.TapeCap
}

func poolProp(id string) string {
	if id == "C19" {
		return "C19"
	}
	return id
}

func runBatch(spec *props.Spec, j *Job) *BatchOut {
	start := time.Now()
	out := &BatchOut{Planned: j.To - j.From, Probes: map[string]int64{}, Faults: map[string]int64{}, ClassCounts: map[string]int{}}
	seen := map[uint64]struct{}{}
	all := sim.Digest{}
	all.Reset()
	// Wall-clock monitor for runs that spin without I/O.
	var curIdx, curStart atomic.Int64
	curIdx.Store(-1)
	hangSec := j.HangSec
	if hangSec == 0 {
		hangSec = 90
	}
	var outMu sync.Mutex
	go func() {
		for {
			time.Sleep(time.Second)
			idx, st := curIdx.Load(), curStart.Load()
			if idx < 0 || time.Now().UnixNano()-st < int64(hangSec)*int64(time.Second) || curIdx.Load() != idx {
				continue
			}
			buf := make([]byte, 1<<17)
			n := runtime.Stack(buf, true)
			outMu.Lock()
			out.Hang = &HangInfo{Index: int(idx), Seed: SeedOf(j.Base, j.Prop, int(idx)), Sec: hangSec, Stack: string(buf[:n])}
			out.WallS = time.Since(start).Seconds()
			writeJSON(j.Out, out)
			os.Exit(3)
		}
	}()
	for i := j.From; i < j.To; i++ {
		if j.CapSec > 0 && time.Since(start) > time.Duration(j.CapSec)*time.Second {
			break
		}
		seed := SeedOf(j.Base, j.Prop, i)
		curStart.Store(time.Now().UnixNano())
		curIdx.Store(int64(i))
		detail := len(out.Samples) < j.Samples
		Fresh = i%PoolEpoch == 0 || i == j.From
		res := Exec(spec, sim.NewTapeCap(seed, tapeCap(spec)), j.Tier, detail)
		Fresh = true
		curIdx.Store(-1)
		outMu.Lock()
		out.Executed++
		for k, v := range res.Probes {
			out.Probes[k] += v
		}
		for k, v := range res.Faults {
			out.Faults[k] += v
		}
		out.Steps += res.Steps
		out.FaultPoints += res.FaultPoints
		out.FakeNanos += res.FakeNanos
		all.Add(res.Digest)
		if os.Getenv("VERIF_DEBUG_DIGESTS") != "" {
			out.RunDigests = append(out.RunDigests, strconv.Itoa(i)+":"+strconv.FormatUint(res.Digest, 16)+":"+strconv.FormatInt(res.Steps, 10))
		}
		if res.Nontrivial {
			seen[res.Digest] = struct{}{}
		}
		if res.Internal != "" {
			if len(out.Internal) < 5 {
				out.Internal = append(out.Internal, "run "+strconv.Itoa(i)+" seed "+strconv.FormatUint(seed, 10)+": "+res.Internal)
			}
			outMu.Unlock()
			continue
		}
		if res.Viol != nil {
			c := res.Viol.Class()
			out.ClassCounts[c]++
			if out.ClassCounts[c] == 1 && len(out.Found) < 8 {
				out.Found = append(out.Found, Found{Index: i, Seed: seed, Result: res})
			}
			outMu.Unlock()
			continue
		}
		if detail {
			res.Probes, res.Faults = nil, nil
			out.Samples = append(out.Samples, res)
		}
		outMu.Unlock()
	}
	for d := range seen {
		out.Digests = append(out.Digests, strconv.FormatUint(d, 16))
	}
	out.AllDigest = strconv.FormatUint(all.Sum(), 16)
	out.WallS = time.Since(start).Seconds()
	return out
}

func writeJSON(path string, v interface{}) error {
	b, err := json.Marshal(v)
	if err != nil {
		return err
	}
	tmp := path + ".tmp"
	if err := os.WriteFile(tmp, b, 0o644); err != nil {
		return err
	}
	return os.Rename(tmp, path)
}
