package worker

import (
	"os"
	"sync"
	"sync/atomic"
	"time"

	"verif/eng"
	"verif/props"
	"verif/sim"
)

// ShrinkOut is the result of minimising a failing tape.
type ShrinkOut struct {
	Class    string      `json:"class"`
	Execs    int         `json:"execs"`
	FromLen  int         `json:"from_len"`
	ToLen    int         `json:"to_len"`
	Result   *eng.Result `json:"result"`
	Repro    bool        `json:"repro"`
	WallS    float64     `json:"wall_s"`
	GaveUp   string      `json:"gave_up,omitempty"`
	Internal string      `json:"internal,omitempty"`
}

// Shrink minimises a failing tape by delta debugging: drop the suffix, drop
// blocks, zero and halve single draws; a candidate is kept iff the same
// violation class reappears.
func Shrink(spec *props.Spec, j *Job) *ShrinkOut {
	start := time.Now()
	out := &ShrinkOut{Class: j.Class, FromLen: len(j.Tape)}
	maxExec, maxSec := j.MaxExec, j.MaxSec
	if maxExec == 0 {
		maxExec = 2000
	}
	if maxSec == 0 {
		maxSec = 60
	}
	// A candidate tape may send the library into an endless loop: give up
	// shrinking then and hand back the best tape found so far.
	var execStart atomic.Int64
	var mu sync.Mutex
	var bestSoFar *eng.Result
	var bestTape []uint32
	go func() {
		for {
			time.Sleep(time.Second)
			if st := execStart.Load(); st != 0 && time.Now().UnixNano()-st > 45*int64(time.Second) {
				mu.Lock()
				if bestSoFar != nil {
					bestSoFar.Tape = bestTape
					out.Repro, out.Result, out.ToLen = true, bestSoFar, len(bestTape)
				}
				out.GaveUp = "a candidate tape made no progress for 45s; minimisation stopped"
				out.WallS = time.Since(start).Seconds()
				writeJSON(j.Out, out)
				os.Exit(3)
			}
		}
	}()
	try := func(t []uint32) *eng.Result {
		out.Execs++
		execStart.Store(time.Now().UnixNano())
		defer execStart.Store(0)
		res := Exec(spec, sim.ReplayTapeCap(t, tapeCap(spec)), j.Tier, true)
		if res.Viol != nil && res.Viol.Class() == j.Class {
			return res
		}
		return nil
	}
	best := append([]uint32(nil), j.Tape...)
	bestRes := try(best)
	// Engine dial: a violation that consists of the library no longer
	// waiting for its watcher goroutine is decided by the runtime's choice
	// between two ready select cases; it recurs within a few attempts.
	for i := 0; bestRes == nil && i < j.Retries; i++ {
		bestRes = try(best)
	}
	if bestRes == nil {
		out.Repro = false
		out.GaveUp = "original tape does not reproduce the class in replay mode"
		return out
	}
	out.Repro = true
	// The run only consumed bestRes.Tape: trim.
	if len(bestRes.Tape) < len(best) {
		best = append([]uint32(nil), bestRes.Tape...)
	}
	budget := func() bool {
		return out.Execs < maxExec && time.Since(start) < time.Duration(maxSec)*time.Second
	}
	record := func() {
		mu.Lock()
		bestSoFar, bestTape = bestRes, append([]uint32(nil), best...)
		mu.Unlock()
	}
	record()
	accept := func(c []uint32) bool {
		if res := try(c); res != nil {
			best = c
			if len(res.Tape) < len(best) {
				best = append([]uint32(nil), res.Tape...)
			}
			bestRes = res
			record()
			return true
		}
		return false
	}
	improved := true
	for improved && budget() {
		improved = false
		// 1. Truncate (suffix becomes zeros).
		for n := len(best) / 2; n >= 1 && budget(); n /= 2 {
			for len(best) > n && budget() {
				if !accept(append([]uint32(nil), best[:len(best)-n]...)) {
					break
				}
				improved = true
			}
		}
		// 2. Delete blocks.
		for bs := len(best) / 2; bs >= 1 && budget(); bs /= 2 {
			for at := 0; at+bs <= len(best) && budget(); {
				c := append(append([]uint32(nil), best[:at]...), best[at+bs:]...)
				if accept(c) {
					improved = true
				} else {
					at += bs
				}
			}
		}
		// 3. Zero blocks.
		for bs := len(best) / 2; bs >= 1 && budget(); bs /= 2 {
			for at := 0; at+bs <= len(best) && budget(); at += bs {
				allZero := true
				for _, v := range best[at : at+bs] {
					if v != 0 {
						allZero = false
					}
				}
				if allZero {
					continue
				}
				c := append([]uint32(nil), best...)
				for k := at; k < at+bs; k++ {
					c[k] = 0
				}
				if accept(c) {
					improved = true
				}
			}
		}
		// 4. Lower single draws.
		for i := 0; i < len(best) && budget(); i++ {
			for best[i] > 0 && budget() {
				c := append([]uint32(nil), best...)
				if c[i] > 8 {
					c[i] /= 2
				} else {
					c[i]--
				}
				if i >= len(c) || !accept(c) {
					break
				}
				improved = true
				if i >= len(best) {
					break
				}
			}
		}
	}
	if !budget() {
		out.GaveUp = "budget"
	}
	// Final re-execution for a clean, detailed result.
	final := Exec(spec, sim.ReplayTapeCap(best, tapeCap(spec)), j.Tier, true)
	for i := 0; (final.Viol == nil || final.Viol.Class() != j.Class) && i < j.Retries; i++ {
		final = Exec(spec, sim.ReplayTapeCap(best, tapeCap(spec)), j.Tier, true)
	}
	if final.Viol == nil || final.Viol.Class() != j.Class {
		out.Internal = "minimised tape stopped reproducing"
		final = bestRes
	}
	final.Tape = best
	out.Result = final
	out.ToLen = len(best)
	out.WallS = time.Since(start).Seconds()
	return out
}
