// Package sim holds the simulator core shared by all engines: the choice tape
// (the single source of every decision of a run), the event trace digest, and
// small deterministic helpers. Everything here that tasks of one run may touch
// is written to be safe inside //go:norace callers: fixed arrays, no append,
// no maps, no fmt (DESIGN.md §3.1, §3.3).
package sim

// Label identifies what a draw decides; used only to print decision lists.
type Label uint16

const (
	LCfg Label = iota + 1
	LSide
	LEntry
	LNMsg
	LOp
	LNFrag
	LLen
	LLenClass
	LPaySeed
	LPayKind
	LMask
	LCtrl
	LCtrlLen
	LSegMode
	LSeg
	LBuf
	LAct
	LFault
	LFaultAt
	LSched
	LPool
	LMisc
	LHist
	LSize
	LUTF8
	LCode
	LCancel
	LDelay
	LSess
	LMax
)

var labelNames = [...]string{
	LCfg: "cfg", LSide: "side", LEntry: "entry", LNMsg: "nmsg", LOp: "op", LNFrag: "nfrag",
	LLen: "len", LLenClass: "lenclass", LPaySeed: "payseed", LPayKind: "paykind", LMask: "mask",
	LCtrl: "ctrl", LCtrlLen: "ctrllen", LSegMode: "segmode", LSeg: "seg", LBuf: "buf", LAct: "act",
	LFault: "fault", LFaultAt: "faultat", LSched: "sched", LPool: "pool", LMisc: "misc", LHist: "hist",
	LSize: "size", LUTF8: "utf8", LCode: "code", LCancel: "cancel", LDelay: "delay", LSess: "sess",
}

func (l Label) String() string {
	if int(l) < len(labelNames) && labelNames[l] != "" {
		return labelNames[l]
	}
	return "?"
}

// TapeCap bounds the number of draws of one run (default; engines with many
// scheduling decisions ask for more through NewTapeCap).
const TapeCap = 1 << 17

// Tape is the choice tape. In record mode draws come from a splitmix64 stream
// seeded by the run seed and are appended; in replay mode they are read back
// (value modulo n), and past the end every draw is 0 — the simplest choice of
// every generator.
type Tape struct {
	replay bool
	rng    uint64
	vals   []uint32
	labs   []Label
	n      int // draws made so far
	end    int // replay: number of recorded values
	over   bool
	mark   int
	cap    int
}

// NewTape returns a recording tape for seed.
func NewTape(seed uint64) *Tape { return NewTapeCap(seed, TapeCap) }

// NewTapeCap returns a recording tape with room for n draws.
func NewTapeCap(seed uint64, n int) *Tape {
	return &Tape{rng: seed, vals: make([]uint32, n), labs: make([]Label, n), cap: n}
}

// ReplayTape returns a tape that replays vals.
func ReplayTape(vals []uint32) *Tape { return ReplayTapeCap(vals, TapeCap) }

// ReplayTapeCap is ReplayTape with room for n draws.
func ReplayTapeCap(vals []uint32, n int) *Tape {
	if len(vals) > n {
		n = len(vals)
	}
	t := &Tape{replay: true, vals: make([]uint32, n), labs: make([]Label, n), cap: n}
	copy(t.vals, vals)
	t.end = len(vals)
	return t
}

//go:norace
func splitmix(x *uint64) uint64 {
	*x += 0x9e3779b97f4a7c15
	z := *x
	z = (z ^ (z >> 30)) * 0xbf58476d1ce4e5b9
	z = (z ^ (z >> 27)) * 0x94d049bb133111eb
	return z ^ (z >> 31)
}

// Mix derives a sub-seed.
func Mix(a, b uint64) uint64 {
	x := a ^ (b * 0x9e3779b97f4a7c15)
	return splitmix(&x)
}

// Int draws a value in [0,n). n<=1 draws nothing and returns 0.
//
//go:norace
func (t *Tape) Int(l Label, n int) int {
	if n <= 1 {
		return 0
	}
	if t.n >= t.cap {
		t.over = true
		return 0
	}
	var v uint32
	if t.replay || t.n < t.end {
		if t.n < t.end {
			v = t.vals[t.n]
		}
	} else {
		// Record the reduced value: tapes stay readable and shrink well.
		v = uint32(splitmix(&t.rng)>>16) % uint32(n)
		t.vals[t.n] = v
		t.end = t.n + 1
	}
	t.labs[t.n] = l
	t.n++
	return int(v % uint32(n))
}

// Bool draws a coin.
//
//go:norace
func (t *Tape) Bool(l Label) bool { return t.Int(l, 2) == 1 }

// Range draws in [lo,hi].
//
//go:norace
func (t *Tape) Range(l Label, lo, hi int) int {
	if hi <= lo {
		return lo
	}
	return lo + t.Int(l, hi-lo+1)
}

// Chance is true with probability num/den (false for draw 0 ... den-num-1, so
// the all-zero tape takes the "no" branch).
//
//go:norace
func (t *Tape) Chance(l Label, num, den int) bool {
	return t.Int(l, den) >= den-num
}

// U32 draws a raw 32-bit value (0 past the end).
//
//go:norace
func (t *Tape) U32(l Label) uint32 {
	hi := t.Int(l, 1<<16)
	lo := t.Int(l, 1<<16)
	return uint32(hi)<<16 | uint32(lo)
}

// Mark remembers the current position; Rewind goes back to it, so that the
// same decisions are replayed by a second execution (fault enumeration re-runs
// one workload under every fault point). Draws past the previously recorded end
// continue the stream.
//
//go:norace
func (t *Tape) Mark() { t.mark = t.n }

//go:norace
func (t *Tape) Rewind() { t.n = t.mark }

// Pos returns the number of draws made.
//
//go:norace
func (t *Tape) Pos() int { return t.n }

// Room returns how many more draws the tape can take.
//
//go:norace
func (t *Tape) Room() int { return t.cap - t.n }

// Overflow reports whether the run wanted more than TapeCap draws.
func (t *Tape) Overflow() bool { return t.over }

// Values returns a copy of the recorded tape (record mode: everything drawn;
// replay mode: the draws consumed, cut at the consumed length).
func (t *Tape) Values() []uint32 {
	n := t.end
	if t.replay && t.n < n {
		n = t.n
	}
	out := make([]uint32, n)
	copy(out, t.vals[:n])
	return out
}

// Decisions renders up to max draws as "label=value" for the replay file.
func (t *Tape) Decisions(max int) []string {
	n := t.n
	if n > t.end {
		n = t.end
	}
	if n > max {
		n = max
	}
	out := make([]string, 0, n)
	for i := 0; i < n; i++ {
		out = append(out, t.labs[i].String()+"="+utoa(uint64(t.vals[i])))
	}
	return out
}

func utoa(v uint64) string {
	if v == 0 {
		return "0"
	}
	var b [20]byte
	i := len(b)
	for v > 0 {
		i--
		b[i] = byte('0' + v%10)
		v /= 10
	}
	return string(b[i:])
}

// Digest is an FNV-1a style running hash of the event trace of one run.
type Digest struct {
	h uint64
	n int64
}

//go:norace
func (d *Digest) Reset() { d.h = 0xcbf29ce484222325; d.n = 0 }

//go:norace
func (d *Digest) Add(v uint64) {
	if d.h == 0 {
		d.h = 0xcbf29ce484222325
	}
	for i := 0; i < 8; i++ {
		d.h ^= v & 0xff
		d.h *= 0x100000001b3
		v >>= 8
	}
	d.n++
}

//go:norace
func (d *Digest) AddBytes(p []byte) {
	if d.h == 0 {
		d.h = 0xcbf29ce484222325
	}
	for i := 0; i < len(p); i++ {
		d.h ^= uint64(p[i])
		d.h *= 0x100000001b3
	}
	d.n++
}

//go:norace
func (d *Digest) AddString(s string) {
	if d.h == 0 {
		d.h = 0xcbf29ce484222325
	}
	for i := 0; i < len(s); i++ {
		d.h ^= uint64(s[i])
		d.h *= 0x100000001b3
	}
	d.n++
}

//go:norace
func (d *Digest) Sum() uint64 { return d.h }

//go:norace
func (d *Digest) Events() int64 { return d.n }

// Fill writes a deterministic pseudo-random byte string derived from seed.
// kind 0: all-zero-ish counter pattern (simplest), 1: random, 2: compressible
// text, 3: single repeated byte.
func Fill(p []byte, seed uint32, kind int) {
	switch kind {
	case 0:
		for i := range p {
			p[i] = byte('a' + i%26)
		}
	case 1:
		x := uint64(seed)*0x9e3779b97f4a7c15 + 1
		for i := 0; i < len(p); i += 8 {
			v := splitmix(&x)
			for j := 0; j < 8 && i+j < len(p); j++ {
				p[i+j] = byte(v >> (8 * j))
			}
		}
	case 2:
		words := []string{"the ", "quick ", "brown ", "fox ", "jumps ", "over ", "lazy ", "dog ", "websocket ", "frame "}
		x := uint64(seed) + 7
		i := 0
		for i < len(p) {
			w := words[splitmix(&x)%uint64(len(words))]
			i += copy(p[i:], w)
		}
	default:
		for i := range p {
			p[i] = byte(seed)
		}
	}
}
