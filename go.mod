module verif

go 1.26.8

godebug randseednop=0

require (
	github.com/gobwas/httphead v0.1.0
	github.com/gobwas/pool v0.2.1
	github.com/gobwas/ws v0.0.0
	github.com/klauspost/compress v1.20.0
)

replace github.com/gobwas/ws => /repo

replace github.com/gobwas/pool => ./simpool
