// Package pool is the simulator's drop-in replacement of
// github.com/gobwas/pool v0.2.1 (same exported API, same size-class
// arithmetic). Reuse is deterministic and decided by simctl; see DESIGN.md §3.4.
package pool

import (
	"reflect"
	"sync/atomic"

	"github.com/gobwas/pool/simctl"
)

var DefaultPool = New(128, 65536)

func Get(size int) (interface{}, int) { return DefaultPool.Get(size) }
func Put(x interface{}, size int)    { DefaultPool.Put(x, size) }

const slots = 512

type slot struct {
	x  interface{}
	hb *uint32 // per-item word: the only happens-before edge the pool adds
}

type class struct {
	size  int
	items [slots]slot
	n     int
}

// Pool reuses objects distinguishable by size.
type Pool struct {
	classes []*class
	size    func(int) int
}

func New(min, max int) *Pool {
	return Custom(WithLogSizeMapping(), WithLogSizeRange(min, max))
}

func Custom(opts ...Option) *Pool {
	p := &Pool{size: identity}
	c := (*poolConfig)(p)
	for _, opt := range opts {
		opt(c)
	}
	simctl.Register(p)
	return p
}

// SimReset implements the simctl registry interface.
func (p *Pool) SimReset() {
	for _, c := range p.classes {
		for i := 0; i < c.n; i++ {
			c.items[i] = slot{}
		}
		c.n = 0
	}
}

//go:norace
func (p *Pool) class(n int) *class {
	for _, c := range p.classes {
		if c.size == n {
			return c
		}
	}
	return nil
}

// Get pulls object whose generic size is at least of given size.
func (p *Pool) Get(size int) (interface{}, int) {
	simctl.DoYield()
	n := p.size(size)
	c := p.class(n)
	if c == nil {
		return nil, size
	}
	simctl.Count(simctl.CGet)
	x, hb := c.take()
	if hb != nil {
		atomic.LoadUint32(hb) // acquire: per-item edge, like sync.Pool
		simctl.Count(simctl.CReuse)
	}
	return x, n
}

// Put takes x and its size for future reuse.
func (p *Pool) Put(x interface{}, size int) {
	simctl.DoYield()
	c := p.class(size)
	if c == nil {
		return
	}
	simctl.Count(simctl.CPut)
	if x != nil && reflect.TypeOf(x).Comparable() && c.has(x) {
		simctl.AddFault(simctl.FDoublePut, 0, size, 0)
		return
	}
	if hb := c.park(x); hb != nil {
		atomic.StoreUint32(hb, 1) // release
	}
}

//go:norace
func (c *class) has(x interface{}) bool {
	for i := 0; i < c.n; i++ {
		if c.items[i].x == x {
			return true
		}
	}
	return false
}

//go:norace
func (c *class) park(x interface{}) *uint32 {
	if c.n >= slots {
		simctl.Count(simctl.CDropped)
		return nil
	}
	hb := new(uint32)
	c.items[c.n].x = x
	c.items[c.n].hb = hb
	c.n++
	return hb
}

//go:norace
func (c *class) take() (interface{}, *uint32) {
	if c.n == 0 {
		return nil, nil
	}
	i := simctl.Pick(c.n)
	if i < 0 {
		return nil, nil
	}
	x, hb := c.items[i].x, c.items[i].hb
	// Keep order stable: shift down by hand (no copy(): see DESIGN §3.3).
	for j := i; j < c.n-1; j++ {
		c.items[j] = c.items[j+1]
	}
	c.n--
	c.items[c.n] = slot{}
	return x, hb
}

type poolConfig Pool

func (p *poolConfig) AddSize(n int) {
	p.classes = append(p.classes, &class{size: n})
}

func (p *poolConfig) SetSizeMapping(size func(int) int) { p.size = size }

func identity(n int) int { return n }
