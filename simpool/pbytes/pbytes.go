// Package pbytes is the simulator's replacement of gobwas/pool/pbytes.
package pbytes

import (
	"sync/atomic"

	"github.com/gobwas/pool"
	"github.com/gobwas/pool/simctl"
)

var DefaultPool = New(128, 65536)

func Get(n, c int) []byte { return DefaultPool.Get(n, c) }
func GetCap(c int) []byte { return DefaultPool.GetCap(c) }
func GetLen(n int) []byte { return DefaultPool.GetLen(n) }
func Put(p []byte)        { DefaultPool.Put(p) }

const slots = 512

type slot struct {
	b  []byte
	hb *uint32
}

type class struct {
	size  int
	items [slots]slot
	n     int
}

// Pool contains logic of reusing byte slices of various size.
type Pool struct {
	classes []*class
	size    func(int) int
}

type cfg Pool

func (p *cfg) AddSize(n int)                   { p.classes = append(p.classes, &class{size: n}) }
func (p *cfg) SetSizeMapping(f func(int) int) { p.size = f }

func New(min, max int) *Pool {
	return Custom(pool.WithLogSizeMapping(), pool.WithLogSizeRange(min, max))
}

func Custom(opts ...pool.Option) *Pool {
	p := &Pool{size: func(n int) int { return n }}
	for _, o := range opts {
		o((*cfg)(p))
	}
	simctl.Register(p)
	return p
}

func (p *Pool) SimReset() {
	for _, c := range p.classes {
		for i := 0; i < c.n; i++ {
			c.items[i] = slot{}
		}
		c.n = 0
	}
}

//go:norace
func (p *Pool) class(n int) *class {
	for _, c := range p.classes {
		if c.size == n {
			return c
		}
	}
	return nil
}

// Get returns probably reused slice of bytes with at least capacity of c and
// exactly len of n.
func (p *Pool) Get(n, c int) []byte {
	if n > c {
		panic("requested length is greater than capacity")
	}
	simctl.DoYield()
	m := p.size(c)
	cl := p.class(m)
	if cl == nil {
		return make([]byte, n, c)
	}
	simctl.Count(simctl.CGet)
	b, hb := cl.take()
	if hb == nil {
		return make([]byte, n, m)
	}
	atomic.LoadUint32(hb) // acquire (per item)
	simctl.Count(simctl.CReuse)
	// Canary: the poison written at Put must be intact.
	full := b[:cap(b)]
	pz := simctl.Poison()
	for i := range full {
		if full[i] != pz {
			simctl.AddFault(simctl.FCanary, 1, cap(b), i)
			break
		}
	}
	simctl.Count(simctl.CCanaryChecked)
	return b[:n]
}

// Put returns given slice to reuse pool.
func (p *Pool) Put(bts []byte) {
	simctl.DoYield()
	cl := p.class(cap(bts))
	if cl == nil {
		return
	}
	simctl.Count(simctl.CPut)
	full := bts[:cap(bts)]
	if cl.has(&full[0]) {
		simctl.AddFault(simctl.FDoublePut, 1, cap(bts), 0)
		return
	}
	pz := simctl.Poison()
	for i := range full {
		full[i] = pz
	}
	simctl.Count(simctl.CPoisoned)
	if hb := cl.park(full); hb != nil {
		atomic.StoreUint32(hb, 1) // release
	}
}

func (p *Pool) GetCap(c int) []byte { return p.Get(0, c) }
func (p *Pool) GetLen(n int) []byte { return p.Get(n, n) }

// Sweep checks the canaries of every parked slice (end of run).
func (p *Pool) Sweep() {
	pz := simctl.Poison()
	for _, c := range p.classes {
		for i := 0; i < c.n; i++ {
			b := c.items[i].b
			for j := range b {
				if b[j] != pz {
					simctl.AddFault(simctl.FCanary, 1, cap(b), j)
					break
				}
			}
			simctl.Count(simctl.CCanaryChecked)
		}
	}
}

//go:norace
func (c *class) has(p *byte) bool {
	for i := 0; i < c.n; i++ {
		if &c.items[i].b[0] == p {
			return true
		}
	}
	return false
}

//go:norace
func (c *class) park(b []byte) *uint32 {
	if c.n >= slots {
		simctl.Count(simctl.CDropped)
		return nil
	}
	hb := new(uint32)
	c.items[c.n] = slot{b, hb}
	c.n++
	return hb
}

//go:norace
func (c *class) take() ([]byte, *uint32) {
	if c.n == 0 {
		return nil, nil
	}
	i := simctl.Pick(c.n)
	if i < 0 {
		return nil, nil
	}
	s := c.items[i]
	for j := i; j < c.n-1; j++ {
		c.items[j] = c.items[j+1]
	}
	c.n--
	c.items[c.n] = slot{}
	return s.b, s.hb
}
