// Package pbufio is the simulator's replacement of gobwas/pool/pbufio.
package pbufio

import (
	"bufio"
	"io"
	"sync/atomic"

	"github.com/gobwas/pool"
	"github.com/gobwas/pool/simctl"
)

var (
	DefaultWriterPool = NewWriterPool(256, 65536)
	DefaultReaderPool = NewReaderPool(256, 65536)
)

func GetWriter(w io.Writer, size int) *bufio.Writer { return DefaultWriterPool.Get(w, size) }
func PutWriter(bw *bufio.Writer)                    { DefaultWriterPool.Put(bw) }
func GetReader(w io.Reader, size int) *bufio.Reader { return DefaultReaderPool.Get(w, size) }
func PutReader(bw *bufio.Reader)                    { DefaultReaderPool.Put(bw) }

const slots = 512

type slot struct {
	r  *bufio.Reader
	w  *bufio.Writer
	hb *uint32
}

type class struct {
	size  int
	items [slots]slot
	n     int
}

type classes struct {
	cs   []*class
	size func(int) int
}

type cfg classes

func (p *cfg) AddSize(n int)                   { p.cs = append(p.cs, &class{size: n}) }
func (p *cfg) SetSizeMapping(f func(int) int) { p.size = f }

func build(opts []pool.Option) *classes {
	p := &classes{size: func(n int) int { return n }}
	for _, o := range opts {
		o((*cfg)(p))
	}
	return p
}

func (p *classes) SimReset() {
	for _, c := range p.cs {
		for i := 0; i < c.n; i++ {
			c.items[i] = slot{}
		}
		c.n = 0
	}
}

//go:norace
func (p *classes) class(n int) *class {
	for _, c := range p.cs {
		if c.size == n {
			return c
		}
	}
	return nil
}

//go:norace
func (c *class) has(r *bufio.Reader, w *bufio.Writer) bool {
	for i := 0; i < c.n; i++ {
		if (r != nil && c.items[i].r == r) || (w != nil && c.items[i].w == w) {
			return true
		}
	}
	return false
}

//go:norace
func (c *class) park(r *bufio.Reader, w *bufio.Writer) *uint32 {
	if c.n >= slots {
		simctl.Count(simctl.CDropped)
		return nil
	}
	hb := new(uint32)
	c.items[c.n] = slot{r, w, hb}
	c.n++
	return hb
}

//go:norace
func (c *class) take() (slot, bool) {
	if c.n == 0 {
		return slot{}, false
	}
	i := simctl.Pick(c.n)
	if i < 0 {
		return slot{}, false
	}
	s := c.items[i]
	for j := i; j < c.n-1; j++ {
		c.items[j] = c.items[j+1]
	}
	c.n--
	c.items[c.n] = slot{}
	return s, true
}

// poisonSrc is an endless source of the poison byte.
type poisonSrc struct{}

func (poisonSrc) Read(p []byte) (int, error) {
	pz := simctl.Poison()
	for i := range p {
		p[i] = pz
	}
	return len(p), nil
}

type discard struct{}

func (discard) Write(p []byte) (int, error) { return len(p), nil }

// WriterPool contains logic of *bufio.Writer reuse with various size.
type WriterPool struct{ c *classes }

func NewWriterPool(min, max int) *WriterPool {
	return CustomWriterPool(pool.WithLogSizeMapping(), pool.WithLogSizeRange(min, max))
}

func CustomWriterPool(opts ...pool.Option) *WriterPool {
	p := &WriterPool{build(opts)}
	simctl.Register(p.c)
	return p
}

func (wp *WriterPool) Get(w io.Writer, size int) *bufio.Writer {
	simctl.DoYield()
	n := wp.c.size(size)
	cl := wp.c.class(n)
	if cl == nil {
		return bufio.NewWriterSize(w, size)
	}
	simctl.Count(simctl.CGet)
	s, ok := cl.take()
	if !ok {
		return bufio.NewWriterSize(w, n)
	}
	atomic.LoadUint32(s.hb)
	simctl.Count(simctl.CReuse)
	s.w.Reset(w)
	return s.w
}

func (wp *WriterPool) Put(bw *bufio.Writer) {
	simctl.DoYield()
	bw.Reset(nil)
	cl := wp.c.class(bw.Size())
	if cl == nil {
		return
	}
	simctl.Count(simctl.CPut)
	if cl.has(nil, bw) {
		simctl.AddFault(simctl.FDoublePut, 3, bw.Size(), 0)
		return
	}
	// Poison the internal buffer: whatever still aliases it sees garbage.
	bw.Reset(discard{})
	var chunk [256]byte
	pz := simctl.Poison()
	for i := range chunk {
		chunk[i] = pz
	}
	for left := bw.Size(); left > 0; {
		k := left
		if k > len(chunk) {
			k = len(chunk)
		}
		if k > bw.Available() {
			break
		}
		bw.Write(chunk[:k])
		left -= k
	}
	bw.Reset(nil)
	simctl.Count(simctl.CPoisoned)
	if hb := cl.park(nil, bw); hb != nil {
		atomic.StoreUint32(hb, 1)
	}
}

// ReaderPool contains logic of *bufio.Reader reuse with various size.
type ReaderPool struct{ c *classes }

func NewReaderPool(min, max int) *ReaderPool {
	return CustomReaderPool(pool.WithLogSizeMapping(), pool.WithLogSizeRange(min, max))
}

func CustomReaderPool(opts ...pool.Option) *ReaderPool {
	p := &ReaderPool{build(opts)}
	simctl.Register(p.c)
	return p
}

func (rp *ReaderPool) Get(r io.Reader, size int) *bufio.Reader {
	simctl.DoYield()
	n := rp.c.size(size)
	cl := rp.c.class(n)
	if cl == nil {
		return bufio.NewReaderSize(r, size)
	}
	simctl.Count(simctl.CGet)
	s, ok := cl.take()
	if !ok {
		return bufio.NewReaderSize(r, n)
	}
	atomic.LoadUint32(s.hb)
	simctl.Count(simctl.CReuse)
	s.r.Reset(r)
	return s.r
}

func (rp *ReaderPool) Put(br *bufio.Reader) {
	simctl.DoYield()
	br.Reset(nil)
	cl := rp.c.class(br.Size())
	if cl == nil {
		return
	}
	simctl.Count(simctl.CPut)
	if cl.has(br, nil) {
		simctl.AddFault(simctl.FDoublePut, 2, br.Size(), 0)
		return
	}
	// Poison the internal buffer.
	br.Reset(poisonSrc{})
	br.Peek(br.Size())
	br.Reset(nil)
	simctl.Count(simctl.CPoisoned)
	if hb := cl.park(br, nil); hb != nil {
		atomic.StoreUint32(hb, 1)
	}
}
