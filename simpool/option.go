package pool

// Option configures pool.
type Option func(Config)

// Config describes generic pool configuration.
type Config interface {
	AddSize(n int)
	SetSizeMapping(func(int) int)
}

func WithLogSizeRange(min, max int) Option {
	return func(c Config) {
		LogarithmicRange(min, max, func(n int) { c.AddSize(n) })
	}
}

func WithSize(n int) Option { return func(c Config) { c.AddSize(n) } }

func WithSizeMapping(sz func(int) int) Option {
	return func(c Config) { c.SetSizeMapping(sz) }
}

func WithLogSizeMapping() Option { return WithSizeMapping(CeilToPowerOfTwo) }

func WithIdentitySizeMapping() Option { return WithSizeMapping(identity) }

// LogarithmicRange iterates from ceiled to power of two min to max.
func LogarithmicRange(min, max int, cb func(int)) {
	if min == 0 {
		min = 1
	}
	for n := CeilToPowerOfTwo(min); n <= max; n <<= 1 {
		cb(n)
	}
}

// CeilToPowerOfTwo returns the least power of two >= n (same as the original
// internal/pmath).
func CeilToPowerOfTwo(n int) int {
	if n <= 2 {
		return n
	}
	n--
	n |= n >> 1
	n |= n >> 2
	n |= n >> 4
	n |= n >> 8
	n |= n >> 16
	n |= n >> 32
	n++
	return n
}
