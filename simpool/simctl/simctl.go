// Package simctl is the control surface of the simulated gobwas/pool.
//
// It exists only in the simulator's replacement of github.com/gobwas/pool: the
// library under test never imports it. The harness sets the reuse policy, the
// yield hook (scheduler seam) and the choice hook, and reads back counters and
// the list of pool-discipline faults (double put, canary damage).
//
// Everything the tasks of one simulated run share in here is touched only from
// //go:norace functions, with fixed arrays and byte loops, so that the harness
// neither reports races against itself nor adds happens-before edges between
// tasks (see DESIGN.md §3.3/§3.4).
package simctl

// Reuse policies.
const (
	PolicyLIFO  = 0 // always hand back the most recently put object of the class
	PolicyFresh = 1 // never reuse
	PolicyTape  = 2 // fresh or any parked object, chosen by Choose
)

// Hooks; set once before any task exists.
var (
	Yield  func()          // called at entry of every Get/Put
	Choose func(n int) int // PolicyTape: pick in [0,n)
)

var (
	policy int
	poison byte = 0xA5
)

// Counter indexes.
const (
	CGet = iota
	CPut
	CReuse
	CCanaryChecked
	CPoisoned
	CDropped
	CMax
)

var counters [CMax]int64

// Fault kinds.
const (
	FDoublePut = 1
	FCanary    = 2
)

type Fault struct {
	Kind int
	Pool int // 0 generic, 1 pbytes, 2 pbufio reader, 3 pbufio writer
	Size int
	Off  int
}

const maxFaults = 16

var (
	faults  [maxFaults]Fault
	nfaults int
)

type resetter interface{ SimReset() }

var (
	registry  [64]resetter
	nregistry int
)

// Register is called by pool constructors (package initialisation, single
// threaded).
func Register(r resetter) {
	if nregistry < len(registry) {
		registry[nregistry] = r
		nregistry++
	}
}

// Reset empties every pool and clears counters and faults. Called by the
// driver goroutine between runs only.
func Reset(pol int, poisonByte byte) {
	policy = pol
	poison = poisonByte
	for i := 0; i < nregistry; i++ {
		registry[i].SimReset()
	}
	for i := range counters {
		counters[i] = 0
	}
	nfaults = 0
}

//go:norace
func Policy() int { return policy }

//go:norace
func Poison() byte { return poison }

//go:norace
func Count(i int) { counters[i]++ }

//go:norace
func Counter(i int) int64 { return counters[i] }

//go:norace
func AddFault(kind, pool, size, off int) {
	if nfaults < maxFaults {
		faults[nfaults] = Fault{kind, pool, size, off}
		nfaults++
	}
}

//go:norace
func Faults() []Fault {
	out := make([]Fault, nfaults)
	for i := 0; i < nfaults; i++ {
		out[i] = faults[i]
	}
	return out
}

// DoYield calls the scheduler hook if one is installed.
func DoYield() {
	if y := Yield; y != nil {
		y()
	}
}

// Pick decides which parked object (index in [0,n)) to hand out, or -1 for a
// fresh one.
func Pick(n int) int {
	switch Policy() {
	case PolicyFresh:
		return -1
	case PolicyTape:
		if c := Choose; c != nil {
			return c(n+1) - 1
		}
		return n - 1
	default:
		return n - 1
	}
}
