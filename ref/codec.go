// Package ref is the independent reference model used as oracle: an RFC 6455
// §5.2 frame codec and §5.3 masking written from the RFC (not calling
// ws.ReadHeader/WriteHeader), the framing rules of §5 and the close-code
// classes of §7.4 as tables. Constants (125, 126, 127, 2/4/10, 65535) are the
// RFC's.
package ref

import (
	"errors"
	"unicode/utf8"
)

const (
	OpCont   = 0x0
	OpText   = 0x1
	OpBinary = 0x2
	OpClose  = 0x8
	OpPing   = 0x9
	OpPong   = 0xA
)

// Frame is a decoded (or to-be-encoded) frame. Payload is always unmasked.
type Frame struct {
	Fin     bool
	Rsv     byte // 3 bits: rsv1=4, rsv2=2, rsv3=1
	Op      byte
	Masked  bool
	Mask    [4]byte
	Payload []byte

	// Wire geometry, filled by Encode/Decode.
	Off, HdrEnd, End int
	// LenAnnounce, when >=0, overrides the announced payload length (used to
	// build frames that announce more than they carry). Encode only.
	LenAnnounce int64
	// LenMSB: the length is written in the 64-bit form with the most
	// significant bit set (RFC 6455 5.2: "the most significant bit MUST be 0").
	LenMSB bool
}

func IsControl(op byte) bool  { return op&0x8 != 0 }
func IsReserved(op byte) bool { return (op >= 3 && op <= 7) || op >= 0xB }

// XOR applies RFC 6455 §5.3 masking.
func XOR(dst, src []byte, key [4]byte, offset int) {
	for i := range src {
		dst[i] = src[i] ^ key[(offset+i)%4]
	}
}

// AppendFrame encodes f at the end of wire using the minimal length form.
func AppendFrame(wire []byte, f *Frame) []byte {
	f.Off = len(wire)
	b0 := f.Op & 0x0f
	if f.Fin {
		b0 |= 0x80
	}
	b0 |= (f.Rsv & 7) << 4
	n := int64(len(f.Payload))
	if f.LenAnnounce > 0 {
		n = f.LenAnnounce
	}
	var b1 byte
	if f.Masked {
		b1 = 0x80
	}
	switch {
	case f.LenMSB:
		wire = append(wire, b0, b1|127,
			byte(n>>56)|0x80, byte(n>>48), byte(n>>40), byte(n>>32), byte(n>>24), byte(n>>16), byte(n>>8), byte(n))
	case n <= 125:
		wire = append(wire, b0, b1|byte(n))
	case n <= 65535:
		wire = append(wire, b0, b1|126, byte(n>>8), byte(n))
	default:
		wire = append(wire, b0, b1|127,
			byte(n>>56), byte(n>>48), byte(n>>40), byte(n>>32), byte(n>>24), byte(n>>16), byte(n>>8), byte(n))
	}
	if f.Masked {
		wire = append(wire, f.Mask[:]...)
	}
	f.HdrEnd = len(wire)
	if f.Masked {
		at := len(wire)
		wire = append(wire, f.Payload...)
		XOR(wire[at:], f.Payload, f.Mask, 0)
	} else {
		wire = append(wire, f.Payload...)
	}
	f.End = len(wire)
	return wire
}

// Encode encodes a frame list.
func Encode(fs []*Frame) []byte {
	var w []byte
	for _, f := range fs {
		w = AppendFrame(w, f)
	}
	return w
}

var (
	ErrShort  = errors.New("ref: incomplete frame")
	ErrMSB    = errors.New("ref: 64-bit length with top bit set")
	ErrNonMin = errors.New("ref: non-minimal length form")
)

// DecodeOne decodes one frame from wire[off:]. It returns ErrShort if the
// bytes end before the frame does.
func DecodeOne(wire []byte, off int) (*Frame, error) {
	p := wire[off:]
	if len(p) < 2 {
		return nil, ErrShort
	}
	f := &Frame{Off: off}
	f.Fin = p[0]&0x80 != 0
	f.Rsv = (p[0] >> 4) & 7
	f.Op = p[0] & 0x0f
	f.Masked = p[1]&0x80 != 0
	l7 := int64(p[1] & 0x7f)
	i := 2
	n := l7
	switch l7 {
	case 126:
		if len(p) < 4 {
			return nil, ErrShort
		}
		n = int64(p[2])<<8 | int64(p[3])
		i = 4
		if n < 126 {
			return nil, ErrNonMin
		}
	case 127:
		if len(p) < 10 {
			return nil, ErrShort
		}
		if p[2]&0x80 != 0 {
			return nil, ErrMSB
		}
		n = 0
		for k := 2; k < 10; k++ {
			n = n<<8 | int64(p[k])
		}
		i = 10
		if n < 65536 {
			return nil, ErrNonMin
		}
	}
	if f.Masked {
		if len(p) < i+4 {
			return nil, ErrShort
		}
		copy(f.Mask[:], p[i:i+4])
		i += 4
	}
	f.HdrEnd = off + i
	if int64(len(p)-i) < n {
		return nil, ErrShort
	}
	f.Payload = make([]byte, n)
	if f.Masked {
		XOR(f.Payload, p[i:i+int(n)], f.Mask, 0)
	} else {
		copy(f.Payload, p[i:i+int(n)])
	}
	f.End = off + i + int(n)
	return f, nil
}

// DecodeAll decodes wire into whole frames; rest is the number of trailing
// bytes that do not form a whole frame (0 means wire ends on a frame boundary).
func DecodeAll(wire []byte) (fs []*Frame, rest int, err error) {
	off := 0
	for off < len(wire) {
		f, e := DecodeOne(wire, off)
		if e == ErrShort {
			return fs, len(wire) - off, nil
		}
		if e != nil {
			return fs, len(wire) - off, e
		}
		fs = append(fs, f)
		off = f.End
	}
	return fs, 0, nil
}

// Side of the receiving endpoint.
type Side int

const (
	Server Side = iota // receives from a client: frames must be masked
	Client             // receives from a server: frames must not be masked
)

// RecvState is the receiver's framing state.
type RecvState struct {
	Side       Side
	Extended   bool // an extension giving meaning to RSV bits was negotiated
	Fragmented bool // a fragmented message is open
}

// Rule names (RFC 6455 §5).
const (
	RuleNone          = ""
	RuleReservedOp    = "reserved_opcode"
	RuleCtrlTooLong   = "control_over_125"
	RuleCtrlNotFinal  = "control_not_final"
	RuleRsv           = "rsv_without_extension"
	RuleMaskRequired  = "unmasked_from_client"
	RuleMaskForbidden = "masked_from_server"
	RuleContExpected  = "data_frame_inside_message"
	RuleContUnexpect  = "continuation_without_message"
)

// Broken returns the rules of RFC 6455 §5 that frame header (op, fin, rsv,
// masked, announced length n) breaks in state s.
func Broken(s RecvState, op byte, fin bool, rsv byte, masked bool, n int64) []string {
	var out []string
	if IsReserved(op) {
		out = append(out, RuleReservedOp)
	}
	if IsControl(op) {
		if n > 125 {
			out = append(out, RuleCtrlTooLong)
		}
		if !fin {
			out = append(out, RuleCtrlNotFinal)
		}
	}
	if rsv != 0 && !s.Extended {
		out = append(out, RuleRsv)
	}
	if s.Side == Server && !masked {
		out = append(out, RuleMaskRequired)
	}
	if s.Side == Client && masked {
		out = append(out, RuleMaskForbidden)
	}
	if !IsControl(op) && !IsReserved(op) {
		if s.Fragmented && op != OpCont {
			out = append(out, RuleContExpected)
		}
		if !s.Fragmented && op == OpCont {
			out = append(out, RuleContUnexpect)
		}
	}
	return out
}

// Next advances the fragmentation state over a valid frame.
func (s RecvState) Next(op byte, fin bool) RecvState {
	if IsControl(op) {
		return s
	}
	s.Fragmented = !fin
	return s
}

// Close code classes (RFC 6455 §7.4; 1012-1014 and >=5000 are left open by
// the property and are reported as CodeOpen).
const (
	CodeValid = iota
	CodeInvalid
	CodeOpen
)

func CloseCodeClass(code int) int {
	switch {
	case code >= 1000 && code <= 1003:
		return CodeValid
	case code >= 1007 && code <= 1011:
		return CodeValid
	case code >= 3000 && code <= 4999:
		return CodeValid
	case code >= 1012 && code <= 1014:
		return CodeOpen
	case code >= 5000:
		return CodeOpen
	default:
		return CodeInvalid
	}
}

// CloseBodyOK reports whether a close frame payload is acceptable per RFC:
// empty, or >=2 bytes with a valid code and a valid UTF-8 reason. open reports
// that the code is in the range the property leaves open.
func CloseBodyOK(p []byte) (ok, open bool) {
	if len(p) == 0 {
		return true, false
	}
	if len(p) == 1 || len(p) > 125 {
		return false, false
	}
	code := int(p[0])<<8 | int(p[1])
	switch CloseCodeClass(code) {
	case CodeInvalid:
		return false, false
	case CodeOpen:
		return utf8.Valid(p[2:]), true
	}
	return utf8.Valid(p[2:]), false
}
