// Package eng defines what a simulated run is and what it returns; engines
// (wire, hs, dial, multi) implement Runner.
package eng

import (
	"fmt"
	"runtime"
	"runtime/debug"
	"sort"
	"strings"
	_ "unsafe" // go:linkname

	"verif/sim"
)

// Violation is one broken oracle clause. Class = Prop/Rule/Entry.
type Violation struct {
	Prop   string `json:"property"`
	Rule   string `json:"rule"`
	Entry  string `json:"entry"`
	Detail string `json:"detail"`
}

func (v *Violation) Class() string { return v.Prop + "/" + v.Rule + "/" + v.Entry }

// Result is what one run reports.
type Result struct {
	Viol        *Violation       `json:"violation,omitempty"`
	Digest      uint64           `json:"digest"`
	Nontrivial  bool             `json:"nontrivial"`
	Probes      map[string]int64 `json:"probes,omitempty"`
	Faults      map[string]int64 `json:"faults,omitempty"`
	Steps       int64            `json:"steps"`
	FaultPoints int64            `json:"fault_points"`
	FakeNanos   int64            `json:"fake_nanos"`
	Sample      []string         `json:"sample,omitempty"`
	Tape        []uint32         `json:"tape,omitempty"`
	Decisions   []string         `json:"decisions,omitempty"`
	Internal    string           `json:"internal,omitempty"` // harness inconsistency (exit 2), never a violation
}

// Run is the per-run context handed to an engine.
type Run struct {
	Prop   string
	T      *sim.Tape
	D      sim.Digest
	Res    *Result
	Tier   string
	Detail bool // collect a readable sample / decision list
	entry  string
}

type stop struct{}

// NewRun prepares a run.
// RunStartHooks are called at the start of every run: engines register the
// reset of whatever package-level state they keep during a run, so that a run
// is a function of its tape and never of the runs the process executed before
// (a replay in a fresh process must see what the batch run saw).
var RunStartHooks []func()

func NewRun(prop string, t *sim.Tape, tier string, detail bool) *Run {
	for _, h := range RunStartHooks {
		h()
	}
	r := &Run{Prop: prop, T: t, Tier: tier, Detail: detail}
	r.Res = &Result{Probes: map[string]int64{}, Faults: map[string]int64{}}
	r.D.Reset()
	return r
}

// SetEntry names the API entry point under test (part of the violation class).
func (r *Run) SetEntry(e string) { r.entry = e }
func (r *Run) Entry() string     { return r.entry }

// Probe counts a reached condition.
func (r *Run) Probe(name string) { r.Res.Probes[name]++ }

// Fault counts an injected fault that actually fired.
func (r *Run) Fault(kind string) { r.Res.Faults[kind]++; r.Res.Nontrivial = true }

// Note appends a line to the readable sample of this run.
func (r *Run) Note(format string, a ...interface{}) {
	if r.Detail && len(r.Res.Sample) < 400 {
		r.Res.Sample = append(r.Res.Sample, fmt.Sprintf(format, a...))
	}
}

// Failf records a violation of the run's property and unwinds the run.
func (r *Run) Failf(rule string, format string, a ...interface{}) {
	r.FailProp(r.Prop, rule, format, a...)
}

// FailProp is Failf for an explicit property id.
func (r *Run) FailProp(prop, rule string, format string, a ...interface{}) {
	if r.Res.Viol == nil {
		r.Res.Viol = &Violation{Prop: prop, Rule: rule, Entry: r.entry, Detail: fmt.Sprintf(format, a...)}
	}
	panic(stop{})
}

// Internalf records a harness inconsistency and unwinds.
func (r *Run) Internalf(format string, a ...interface{}) {
	if r.Res.Internal == "" {
		r.Res.Internal = fmt.Sprintf(format, a...)
	}
	panic(stop{})
}

// Hang is raised by transports when a run exceeds its step budget.
type Hang struct{ What string }

// Guard executes f, turning panics of library code into violations.
func (r *Run) Guard(f func()) {
	defer func() {
		if x := recover(); x != nil {
			switch v := x.(type) {
			case stop:
			case Hang:
				if r.Res.Viol == nil {
					r.Res.Viol = &Violation{Prop: r.Prop, Rule: "hang_step_budget", Entry: r.entry, Detail: v.What}
				}
			default:
				if r.Res.Viol == nil && r.Res.Internal == "" {
					st := string(debug.Stack())
					if harnessPanic(st) {
						r.Res.Internal = fmt.Sprintf("harness panic: %v\n%s", x, st)
					} else {
						r.Res.Viol = &Violation{Prop: r.Prop, Rule: "panic", Entry: r.entry,
							Detail: fmt.Sprintf("panic: %v @ %s", x, panicSite(st))}
					}
				}
			}
		}
	}()
	f()
}

// harnessPanic reports whether the innermost non-runtime frame of a panic is
// harness code (verif/...) rather than the library or its dependencies.
func harnessPanic(stack string) bool {
	site := panicSite(stack)
	return strings.HasPrefix(site, "verif/") || site == ""
}

func panicSite(stack string) string {
	lines := strings.Split(stack, "\n")
	seenPanic := false
	for _, l := range lines {
		if strings.HasPrefix(l, "panic(") {
			seenPanic = true
			continue
		}
		if !seenPanic || strings.HasPrefix(l, "\t") || l == "" {
			continue
		}
		if strings.HasPrefix(l, "runtime.") || strings.HasPrefix(l, "runtime/") {
			continue
		}
		if i := strings.LastIndex(l, "("); i > 0 {
			l = l[:i]
		}
		return l
	}
	return ""
}

// LibFrame returns the first frame of the library (github.com/gobwas/ws...)
// below the panic in a stack trace, or the panic site if there is none.
func LibFrame(stack []byte) string {
	st := string(stack)
	seenPanic := false
	for _, l := range strings.Split(st, "\n") {
		if strings.HasPrefix(l, "panic(") {
			seenPanic = true
			continue
		}
		if !seenPanic || strings.HasPrefix(l, "\t") {
			continue
		}
		if strings.HasPrefix(l, "github.com/gobwas/ws") {
			if i := strings.LastIndex(l, "("); i > 0 {
				l = l[:i]
			}
			return l
		}
	}
	return panicSite(st)
}

// Finish seals the result.
func (r *Run) Finish() *Result {
	r.Res.Digest = r.D.Sum()
	if r.Res.Viol != nil || r.Detail {
		r.Res.Tape = r.T.Values()
		r.Res.Decisions = r.T.Decisions(300)
	}
	if r.T.Overflow() && r.Res.Internal == "" {
		r.Res.Internal = "choice tape overflow"
	}
	return r.Res
}

// Runner executes one run of a property.
type Runner func(r *Run)

// SortedKeys is a helper for stable output.
func SortedKeys(m map[string]int64) []string {
	ks := make([]string, 0, len(m))
	for k := range m {
		ks = append(ks, k)
	}
	sort.Strings(ks)
	return ks
}

// FreshPools empties every sync.Pool of the process and keeps the collector
// off otherwise, so that real sync.Pools only change at execution boundaries
// (DESIGN §8, pool epochs). It calls the cleanup the runtime itself runs at
// the start of a collection (sync.poolCleanup, twice: primary and victim
// cache) - two full collections do the same but cost a millisecond each,
// which engine dial would pay before every one of its bubbles. Only called
// between executions, when nothing else runs. Collect reclaims memory.
func FreshPools() {
	if !gcOff {
		gcOff = true
		debug.SetGCPercent(-1)
		// Safety net only: an execution that allocates without bound (a
		// changed tree spinning in a loop) makes the collector run again near
		// this limit instead of taking the machine down before the hang
		// monitor fires.
		debug.SetMemoryLimit(3 << 30)
	}
	syncPoolCleanup()
	syncPoolCleanup()
}

// Collect runs one collection (memory only matters; callers empty the pools
// with FreshPools at the same boundary).
func Collect() {
	runtime.GC()
	FreshPools()
}

var gcOff bool

//go:linkname syncPoolCleanup sync.poolCleanup
func syncPoolCleanup()
