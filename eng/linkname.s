// Bodyless declaration of syncPoolCleanup (go:linkname) needs an assembly file in the package.
