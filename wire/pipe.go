// Package wire is the single-task engine: one endpoint of real gobwas/ws code
// on a simulated transport whose peer is a scripted byte stream (DESIGN §4,
// engine `wire`).
package wire

import (
	"errors"
	"fmt"
	"io"
	"net"
	"time"

	"verif/eng"
	"verif/ref"
	"verif/sim"
)

// ErrInjected is the non-EOF, non-timeout transport error the simulator
// injects.
var ErrInjected = errors.New("sim: injected transport error")

// ErrInjectedNet is the same fault dressed as transports dress a missed
// deadline: a net.Error that reports Timeout() and Temporary().
var ErrInjectedNet error = netTimeoutErr{}

type netTimeoutErr struct{}

func (netTimeoutErr) Error() string   { return "sim: injected transport error (i/o timeout)" }
func (netTimeoutErr) Timeout() bool   { return true }
func (netTimeoutErr) Temporary() bool { return true }

// ErrInjectedTemp is a transport error that calls itself temporary but not a
// timeout (an interrupted system call, say).
var ErrInjectedTemp error = netTempErr{}

type netTempErr struct{}

func (netTempErr) Error() string   { return "sim: injected transport error (temporary)" }
func (netTempErr) Timeout() bool   { return false }
func (netTempErr) Temporary() bool { return true }

// errWrapsEOF is an abnormal end reported by a layer that says where it
// happened and wraps io.EOF.
var errWrapsEOF = fmt.Errorf("sim: tunnel closed by the other end: %w", io.EOF)

// IsInjected reports whether err is (or wraps) one of the injected faults.
func IsInjected(err error) bool {
	return errors.Is(err, ErrInjected) || errors.Is(err, ErrInjectedNet) || errors.Is(err, ErrInjectedTemp)
}

// Segmentation modes (how many bytes one Read may see).
const (
	SegAll      = 0 // everything available
	SegOne      = 1 // one byte per read
	SegTiny     = 2 // 1..3
	SegSmall    = 3 // 1..17
	SegMedium   = 4 // 1..4096
	SegBoundary = 5 // stop at / around the next structural boundary
	SegModes    = 6
)

// Cut kinds.
const (
	CutNone = 0
	CutEOF  = 1
	CutErr  = 2
)

// Pipe is the simulated transport seen by the endpoint under test. Reads come
// from a scripted stream `In` (segmented by the tape, optionally cut); writes
// are recorded with their call boundaries (optionally failing).
type Pipe struct {
	R  *eng.Run
	In []byte
	// Marks are structural offsets of In (frame starts, header ends, ...):
	// used by SegBoundary and by split probes.
	Marks []Mark

	SegMode     int
	EOFWithData bool   // last segment arrives together with the end condition
	OnWrite     func() // called at the start of every Write (an observer standing at the destination)
	FailOnce    bool   // only the WFailAt-th write call fails; later ones are accepted (and counted in AfterErr)
	NetErr      bool   // injected failures are net.Errors with Timeout() and Temporary() true
	TempErr     bool   // injected failures are net.Errors with Temporary() true and Timeout() false
	WrapEOFErr  bool   // injected read failures are an error that wraps io.EOF (errors.Is(err, io.EOF) holds, err != io.EOF)
	ShortErr    bool   // a failing write reports io.ErrShortWrite (a transport that took part of the bytes and says so)
	// Transient: byte ranges [from, to) of In inside which one Read (the
	// first that starts there, chosen by TransientSalt) fails with a
	// temporary net.Error and delivers nothing; the next Read goes on as if
	// nothing had happened (an expired read deadline that the application
	// extends).
	Transient     [][2]int
	TransientData bool // the failing Read hands over a few bytes together with the error (only for ranges inside a payload)
	transientDone bool
	ZeroReads     bool // now and then a Read returns (0, nil): nothing happened, legal for an io.Reader (never twice in a row)
	lastZero      bool
	zeroSalt      uint64

	CutAt   int // -1: none
	CutKind int
	// CutResume: a CutErr fires once; afterwards the stream goes on where it
	// stopped (a transport error that does not end the connection). An API
	// call that was told about the error must still not report success.
	CutResume bool
	resumed   bool

	pos   int
	reads int64

	Out      []byte
	WCalls   []int // cumulative length of Out after each Write call
	WFailAt  int   // index of the Write call that fails (-1 none)
	WFailN   int   // bytes that call accepts before failing
	wfailed  bool
	AfterErr int // bytes offered after the failure (must be 0 at the destination)

	closed    bool
	Deadlines int
	ops       int64
}

// Mark is a structural offset of the input stream.
type Mark struct {
	Off  int
	Kind byte // 'F' frame start, 'H' header end, 'E' frame end
}

func NewPipe(r *eng.Run, in []byte) *Pipe {
	return &Pipe{R: r, In: in, CutAt: -1, WFailAt: -1}
}

// MarksOf computes the structural marks of a frame list.
func MarksOf(fs []*ref.Frame) []Mark {
	var ms []Mark
	for _, f := range fs {
		ms = append(ms, Mark{f.Off, 'F'}, Mark{f.HdrEnd, 'H'}, Mark{f.End, 'E'})
	}
	return ms
}

const opBudget = 4_000_000

func (p *Pipe) step() {
	p.ops++
	p.R.Res.Steps++
	if p.ops > opBudget {
		panic(eng.Hang{What: "transport operation budget exceeded"})
	}
}

func (p *Pipe) limit() int {
	if p.CutAt >= 0 && p.CutAt < len(p.In) {
		return p.CutAt
	}
	return len(p.In)
}

func (p *Pipe) endErr() error {
	if p.CutAt >= 0 && p.CutAt <= len(p.In) && p.CutKind == CutErr {
		return p.injected()
	}
	return io.EOF
}

// hitEnd returns the end condition and, for a resuming cut, lifts it.
func (p *Pipe) hitEnd() error {
	err := p.endErr()
	if p.CutResume && !p.resumed && err != io.EOF {
		p.resumed = true
		p.CutAt = -1
		p.R.Fault("transport_error_then_stream_resumes")
	}
	return err
}

func (p *Pipe) injected() error {
	if p.WrapEOFErr {
		return errWrapsEOF
	}
	if p.TempErr {
		return ErrInjectedTemp
	}
	if p.NetErr {
		return ErrInjectedNet
	}
	return ErrInjected
}

// Consumed returns how many input bytes the endpoint has read.
func (p *Pipe) Consumed() int { return p.pos }

// Remaining returns how many bytes remain before the end condition.
func (p *Pipe) Remaining() int { return p.limit() - p.pos }

func (p *Pipe) Read(b []byte) (int, error) {
	p.step()
	p.reads++
	if len(b) == 0 {
		return 0, nil
	}
	if p.ZeroReads && p.zeroSalt == 0 {
		p.zeroSalt = 1 + uint64(p.R.T.U32(sim.LSeg)) // one draw; which reads are empty follows from it
	}
	if p.ZeroReads && !p.lastZero && sim.Mix(p.zeroSalt, uint64(p.reads))%8 == 0 {
		p.lastZero = true
		p.R.Fault("zero_length_read")
		return 0, nil
	}
	p.lastZero = false
	if !p.transientDone {
		for _, rg := range p.Transient {
			if p.pos >= rg[0] && p.pos < rg[1] {
				p.transientDone = true
				p.R.Fault("transient_read_error")
				if p.TransientData {
					k := minInt(minInt(len(b), rg[1]-p.pos), 1+p.R.T.Int(sim.LSeg, 5))
					copy(b, p.In[p.pos:p.pos+k])
					p.pos += k
					p.R.D.Add(uint64(p.pos)<<8 | 0x02)
					p.R.Fault("transient_read_error_with_data")
					return k, ErrInjectedNet
				}
				return 0, ErrInjectedNet
			}
		}
	}
	avail := p.limit() - p.pos
	if avail <= 0 {
		p.R.D.Add(uint64(p.pos)<<8 | 0xE0)
		return 0, p.hitEnd()
	}
	k := avail
	if k > len(b) {
		k = len(b)
	}
	mode := p.SegMode
	if (mode == SegTiny || mode == SegSmall) && p.R.T.Room() < 1<<15 {
		// Tens of kilobytes in pieces of a few bytes: the choice tape is
		// bounded; the rest arrives in larger pieces.
		mode = SegMedium
	}
	switch mode {
	case SegOne:
		k = 1
	case SegTiny:
		k = minInt(k, 1+p.R.T.Int(sim.LSeg, 3))
	case SegSmall:
		k = minInt(k, 1+p.R.T.Int(sim.LSeg, 17))
	case SegMedium:
		k = minInt(k, 1+p.R.T.Int(sim.LSeg, 4096))
	case SegBoundary:
		k = minInt(k, p.boundarySeg())
	}
	copy(b, p.In[p.pos:p.pos+k])
	p.pos += k
	p.R.D.Add(uint64(p.pos)<<8 | 0x01)
	if p.pos < p.limit() {
		p.R.Res.Nontrivial = true
		p.probeSplit()
	}
	if p.pos == p.limit() && p.EOFWithData {
		p.R.Fault("eof_with_data")
		return k, p.hitEnd()
	}
	return k, nil
}

// boundarySeg picks a segment that ends at or right around one of the next
// structural marks.
func (p *Pipe) boundarySeg() int {
	var cand [6]int
	n := 0
	for _, m := range p.Marks {
		for _, d := range [...]int{-1, 0, 1} {
			o := m.Off + d
			if o > p.pos && n < len(cand) && (n == 0 || cand[n-1] < o) {
				cand[n] = o
				n++
			}
		}
		if n == len(cand) {
			break
		}
	}
	if n == 0 {
		return 1 << 30
	}
	return cand[p.R.T.Int(sim.LSeg, n)] - p.pos
}

// probeSplit classifies where a read boundary fell.
func (p *Pipe) probeSplit() {
	// Marks come in (F,H,E) triples per frame.
	for i := 0; i+2 < len(p.Marks); i += 3 {
		f, h, e := p.Marks[i].Off, p.Marks[i+1].Off, p.Marks[i+2].Off
		if p.pos < f || p.pos > e {
			continue
		}
		switch {
		case p.pos == f || p.pos == e:
			p.R.Probe("split_at_frame_boundary")
		case p.pos == f+1:
			p.R.Probe("split_in_2byte_hop")
		case p.pos < h:
			if p.pos == f+2 {
				p.R.Probe("split_after_2byte_hop")
			} else {
				p.R.Probe("split_in_ext_len_or_mask")
			}
		case p.pos == h:
			p.R.Probe("split_at_header_end")
		default:
			p.R.Probe("split_in_payload")
		}
		return
	}
}

func (p *Pipe) Write(b []byte) (int, error) {
	p.step()
	if p.OnWrite != nil {
		p.OnWrite()
	}
	call := len(p.WCalls)
	if p.wfailed {
		p.AfterErr += len(b)
		if p.FailOnce {
			// The destination works again; what is offered now is still
			// counted (nothing may be offered after a failure).
			p.Out = append(p.Out, b...)
			p.WCalls = append(p.WCalls, len(p.Out))
			p.R.D.Add(uint64(len(b))<<8 | 0xF3)
			return len(b), nil
		}
		p.WCalls = append(p.WCalls, len(p.Out))
		p.R.D.Add(uint64(len(b))<<8 | 0xF2)
		return 0, p.injected()
	}
	if call == p.WFailAt {
		n := p.WFailN
		if n > len(b) {
			n = len(b)
		}
		p.Out = append(p.Out, b[:n]...)
		p.WCalls = append(p.WCalls, len(p.Out))
		p.wfailed = true
		p.R.Fault("write_fail")
		p.R.D.Add(uint64(n)<<8 | 0xF1)
		if p.ShortErr {
			return n, io.ErrShortWrite
		}
		return n, p.injected()
	}
	p.Out = append(p.Out, b...)
	p.WCalls = append(p.WCalls, len(p.Out))
	p.R.D.Add(uint64(len(b))<<8 | 0x02)
	return len(b), nil
}

// Heal ends the injected write failure: later writes succeed again (a
// destination that failed once, e.g. on an expired write deadline).
func (p *Pipe) Heal() { p.wfailed, p.WFailAt = false, -1 }

// WriteFailed reports whether the injected write failure has fired.
func (p *Pipe) WriteFailed() bool { return p.wfailed }

func (p *Pipe) Close() error                       { p.closed = true; return nil }
func (p *Pipe) LocalAddr() net.Addr                { return addr{} }
func (p *Pipe) RemoteAddr() net.Addr               { return addr{} }
func (p *Pipe) SetDeadline(t time.Time) error      { p.Deadlines++; return nil }
func (p *Pipe) SetReadDeadline(t time.Time) error  { p.Deadlines++; return nil }
func (p *Pipe) SetWriteDeadline(t time.Time) error { p.Deadlines++; return nil }

type addr struct{}

func (addr) Network() string { return "sim" }
func (addr) String() string  { return "sim" }

func minInt(a, b int) int {
	if a < b {
		return a
	}
	return b
}

// DrawSeg draws the segmentation mode of a run.
func DrawSeg(r *eng.Run) int {
	// Weighted: everything-at-once is the minority; the zero draw is SegAll.
	w := [...]int{SegAll, SegOne, SegTiny, SegTiny, SegSmall, SegSmall, SegMedium, SegBoundary, SegBoundary, SegBoundary}
	return w[r.T.Int(sim.LSegMode, len(w))]
}
