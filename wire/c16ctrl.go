package wire

import (
	"io"

	"github.com/gobwas/ws"
	"github.com/gobwas/ws/wsutil"

	"verif/eng"
	"verif/ref"
	"verif/sim"
)

// C16Control: ws.ReadHeader + wsutil.ControlHandler reading straight from a
// transport that is cut at every byte offset: a control frame whose payload is
// cut must not be answered and Handle must fail.
func C16Control(r *eng.Run) {
	side := ref.Side(r.T.Int(sim.LSide, 2))
	r.SetEntry("ReadHeader+ControlHandler")
	var frames []*ref.Frame
	n := 1 + r.T.Int(sim.LNMsg, 3)
	for i := 0; i < n; i++ {
		frames = append(frames, drawCtrlFrame(r, side, i == n-1))
	}
	wire := ref.Encode(frames)
	seg := DrawSeg(r)
	withData := r.T.Chance(sim.LFault, 1, 4)
	r.Note("C16 control side=%d seg=%d stream %s", side, seg, (&Stream{Frames: frames}).Describe())
	r.Res.Nontrivial = true
	for k := 0; k < len(wire); k++ {
		for kind := CutEOF; kind <= CutErr; kind++ {
			r.Res.FaultPoints++
			p := NewPipe(r, wire)
			p.Marks, p.SegMode, p.EOFWithData = MarksOf(frames), seg, withData
			p.CutAt, p.CutKind = k, kind
			if kind == CutErr {
				r.Fault("cut_err")
			} else {
				r.Fault("cut_eof")
			}
			handled := 0
			var err error
			for {
				var h ws.Header
				h, err = ws.ReadHeader(p)
				if err != nil {
					break
				}
				if err = ws.CheckHeader(h, sideState(side)); err != nil {
					r.Internalf("generated control frame fails CheckHeader: %v", err)
				}
				err = wsutil.ControlHandler{Src: p, Dst: p, State: sideState(side)}.Handle(h)
				if err != nil {
					break
				}
				handled++
			}
			// Frames wholly before the cut.
			whole := 0
			var exps []ctrlExp
			for _, f := range frames {
				if f.End <= k {
					whole++
					exps = append(exps, expectCtrl(f.Op, f.Payload))
				}
			}
			var cut *ref.Frame
			for _, f := range frames {
				if f.Off <= k && k < f.End {
					cut = f
				}
			}
			tag := "cut(" + kindName(kind) + ")@" + itoa(k)
			if cut != nil {
				tag += " in " + frameStr(cut)
			}
			if handled > whole {
				r.Failf("success_for_cut_unit", "%s: ControlHandler.Handle succeeded for %d frames, only %d are whole before the cut", tag, handled, whole)
			}
			if err == nil {
				r.Internalf("handler loop ended without error")
			}
			// Like ws.ReadFrame, Handle only has to fail (io.ReadFull reports a
			// payload cut at its first byte as io.EOF): no success is reported
			// and no reply is sent, which is what is checked here.
			_ = io.EOF
			// Replies: exactly those of the whole frames (a close ends the loop
			// with ClosedError after its reply); none from the cut frame.
			fs, rest, derr := ref.DecodeAll(p.Out)
			want := 0
			for _, e := range exps {
				if e.reply != replyNone {
					want++
				}
			}
			if derr != nil || rest != 0 || len(fs) > want {
				r.Failf("reply_from_cut_control", "%s: %d reply frame(s) written (rest=%d), only %d are due for the frames whole before the cut", tag, len(fs), rest, want)
			}
			if !(kind == CutErr && withData) {
				checkReplies(r, "ControlHandler "+tag, side, p.Out, exps)
			}
		}
	}
}
