package wire

import (
	"unicode/utf8"

	"verif/eng"
	"verif/ref"
	"verif/sim"
)

// lenClasses are payload-length classes around the RFC's length-form
// boundaries (125/126, 65535/65536) plus ordinary sizes and buffer sizes.
type lenClass struct{ lo, hi, weight int }

var dataLens = []lenClass{
	{0, 0, 3}, {1, 1, 2}, {2, 7, 4}, {8, 40, 6}, {41, 124, 3}, {125, 125, 2}, {126, 126, 2}, {127, 300, 3},
	{301, 1500, 2}, {4000, 4200, 1}, {65535, 65535, 1}, {65536, 65536, 1}, {65537, 70000, 1},
	// exactly the sizes buffers tend to have (pool classes, default buffers, io.ReadAll's first chunk)
	{128, 128, 1}, {512, 512, 1}, {4096, 4096, 1},
}

func drawLen(r *eng.Run, classes []lenClass, budget *int) int {
	tot := 0
	for _, c := range classes {
		tot += c.weight
	}
	x := r.T.Int(sim.LLenClass, tot)
	var c lenClass
	for _, cc := range classes {
		if x < cc.weight {
			c = cc
			break
		}
		x -= cc.weight
	}
	n := r.T.Range(sim.LLen, c.lo, c.hi)
	if n > *budget {
		// Keep streams bounded: fall back to a small length.
		n = r.T.Range(sim.LLen, 0, minInt(*budget, 40))
	}
	*budget -= n
	return n
}

// validRunes used to build valid UTF-8 text of an exact byte length.
var validRunes = []rune{'a', 'Z', ' ', 0x7f, 0x80, 0x7ff, 0x800, 0xfff, 0xd7ff, 0xe000, 0xffff, 0x10000, 0x10ffff, 'é', '世', '😀',
	0, 0xfffd /* the replacement character itself is valid */, 0xfffe, 0xfeff, 0xfdd0, 0x2028, 0x10fffe, 0x1000, 0xcfff, 0xd000, 0x3ffff, 0x40000, 0xfffff, 0x100000}

// FillUTF8 fills p with valid UTF-8 of exactly len(p) bytes.
func FillUTF8(p []byte, seed uint32) {
	x := uint64(seed)*2654435761 + 12345
	i := 0
	for i < len(p) {
		x = x*6364136223846793005 + 1442695040888963407
		if (x>>20)%8 == 0 && len(p)-i >= 12 {
			// A run of ASCII (8..23 bytes) in front of whatever comes next.
			for k, run := 0, 8+int((x>>24)%16); k < run && i < len(p)-2; k++ {
				p[i] = byte('a' + (x>>uint(28+k%8))%26)
				i++
			}
			continue
		}
		ru := validRunes[(x>>33)%uint64(len(validRunes))]
		n := utf8.RuneLen(ru)
		if i+n > len(p) {
			p[i] = 'x'
			i++
			continue
		}
		utf8.EncodeRune(p[i:], ru)
		i += n
	}
}

func drawPayload(r *eng.Run, n int, text bool) []byte {
	p := make([]byte, n)
	if n == 0 {
		return p
	}
	seed := r.T.U32(sim.LPaySeed)
	if text {
		if seed == 0 {
			sim.Fill(p, 0, 0)
		} else {
			FillUTF8(p, seed)
		}
		return p
	}
	sim.Fill(p, seed, r.T.Int(sim.LPayKind, 4))
	return p
}

func drawMask(r *eng.Run) (m [4]byte) {
	switch r.T.Int(sim.LMask, 4) {
	case 0:
		return [4]byte{0x11, 0x22, 0x33, 0x44}
	case 1:
		return [4]byte{}
	default:
		v := r.T.U32(sim.LMask)
		return [4]byte{byte(v >> 24), byte(v >> 16), byte(v >> 8), byte(v)}
	}
}

// StreamCfg says what kind of valid stream to generate.
type StreamCfg struct {
	Recv      ref.Side // side of the receiver (the endpoint under test)
	MaxMsgs   int
	TextValid bool // text payloads are valid UTF-8
	NoCtrl    bool
	Budget    int // total payload bytes
	OnlyData  bool
	Rsv23     bool // receiver negotiated an extension: frames may carry RSV2/RSV3
}

// Msg is one message of the model.
type Msg struct {
	Op      byte
	Payload []byte
	Frames  []*ref.Frame // data frames of the message, in order
	Inter   []*ref.Frame // control frames between its fragments, in order
	First   *ref.Frame
	Last    *ref.Frame
}

// Item is one top-level element of a stream: a message or a control frame
// outside any message.
type Item struct {
	Msg  *Msg
	Ctrl *ref.Frame
}

// Stream is a generated valid frame sequence with its model.
type Stream struct {
	Frames []*ref.Frame
	Items  []Item
	Wire   []byte
}

func drawCtrl(r *eng.Run, cfg StreamCfg, budget *int) *ref.Frame {
	op := byte(ref.OpPing)
	if r.T.Int(sim.LCtrl, 3) == 2 {
		op = ref.OpPong
	}
	n := 0
	switch r.T.Int(sim.LCtrlLen, 5) {
	case 0:
		n = 0
	case 1:
		n = r.T.Range(sim.LCtrlLen, 1, 8)
	case 2:
		n = r.T.Range(sim.LCtrlLen, 9, 124)
	case 3:
		n = 125
	case 4:
		n = r.T.Range(sim.LCtrlLen, 1, 125)
	}
	if n > *budget {
		n = 0
	}
	*budget -= n
	f := &ref.Frame{Fin: true, Op: op, Payload: drawPayload(r, n, false)}
	if cfg.Recv == ref.Server {
		f.Masked = true
		f.Mask = drawMask(r)
	}
	return f
}

// GenStream draws a valid frame stream for a receiver on side cfg.Recv.
func GenStream(r *eng.Run, cfg StreamCfg) *Stream {
	s := &Stream{}
	budget := cfg.Budget
	if budget == 0 {
		budget = 72 * 1024
	}
	nmsg := 1 + r.T.Int(sim.LNMsg, cfg.MaxMsgs)
	manyDone := false
	for i := 0; i < nmsg; i++ {
		// Top-level control frames before the message.
		if !cfg.NoCtrl {
			for r.T.Chance(sim.LCtrl, 1, 4) && len(s.Frames) < 28 {
				f := drawCtrl(r, cfg, &budget)
				s.Frames = append(s.Frames, f)
				s.Items = append(s.Items, Item{Ctrl: f})
			}
		}
		m := &Msg{Op: ref.OpText}
		if r.T.Bool(sim.LOp) {
			m.Op = ref.OpBinary
		}
		total := drawLen(r, dataLens, &budget)
		m.Payload = drawPayload(r, total, m.Op == ref.OpText && cfg.TextValid)
		nfrag := 1
		switch r.T.Int(sim.LNFrag, 6) {
		case 0, 1:
			nfrag = 1
		case 2:
			nfrag = 2
		case 3:
			nfrag = 3
		default:
			nfrag = 1 + r.T.Int(sim.LNFrag, 5)
		}
		// Split points (empty fragments allowed).
		cuts := make([]int, 0, nfrag+1)
		cuts = append(cuts, 0)
		for k := 1; k < nfrag; k++ {
			c := 0
			switch r.T.Int(sim.LLen, 4) {
			case 0:
				c = cuts[len(cuts)-1] // empty fragment
			case 1:
				c = total
			default:
				c = r.T.Range(sim.LLen, cuts[len(cuts)-1], total)
			}
			if c < cuts[len(cuts)-1] {
				c = cuts[len(cuts)-1]
			}
			cuts = append(cuts, c)
		}
		cuts = append(cuts, total)
		for k := 0; k < nfrag; k++ {
			f := &ref.Frame{Op: ref.OpCont, Fin: k == nfrag-1, Payload: m.Payload[cuts[k]:cuts[k+1]]}
			if k == 0 {
				f.Op = m.Op
				m.First = f
			}
			if cfg.Recv == ref.Server {
				f.Masked = true
				f.Mask = drawMask(r)
			}
			s.Frames = append(s.Frames, f)
			m.Frames = append(m.Frames, f)
			m.Last = f
			if k < nfrag-1 && !cfg.NoCtrl {
				for r.T.Chance(sim.LCtrl, 1, 3) && len(s.Frames) < 28 {
					c := drawCtrl(r, cfg, &budget)
					s.Frames = append(s.Frames, c)
					m.Inter = append(m.Inter, c)
				}
				if !manyDone && r.T.Chance(sim.LCtrl, 1, 150) {
					// A hundred and more control frames in one gap: legal, and
					// more than a buffered reader accepts as "nothing read, no
					// error" answers in a row.
					manyDone = true
					for n, tot := 0, 99+r.T.Int(sim.LCtrl, 60); n < tot; n++ {
						c := &ref.Frame{Fin: true, Op: []byte{ref.OpPing, ref.OpPong}[n%7%2], Payload: drawPayload(r, n%3, false)}
						if cfg.Recv == ref.Server {
							c.Masked, c.Mask = true, drawMask(r)
						}
						s.Frames = append(s.Frames, c)
						m.Inter = append(m.Inter, c)
					}
					r.Probe("a_hundred_control_frames_in_one_gap")
				}
			}
		}
		if nfrag > 1 {
			r.Probe("fragmented_message")
			for k := 0; k < nfrag; k++ {
				if cuts[k] == cuts[k+1] {
					r.Probe("empty_fragment")
				}
			}
		}
		if len(m.Inter) > 0 {
			r.Probe("ctrl_between_fragments")
		}
		s.Items = append(s.Items, Item{Msg: m})
	}
	if !cfg.NoCtrl && r.T.Chance(sim.LCtrl, 1, 5) {
		f := drawCtrl(r, cfg, &budget)
		s.Frames = append(s.Frames, f)
		s.Items = append(s.Items, Item{Ctrl: f})
	}
	if cfg.Rsv23 {
		for _, f := range s.Frames {
			f.Rsv = byte(r.T.Int(sim.LMisc, 4))
		}
	}
	s.Wire = ref.Encode(s.Frames)
	return s
}

// Describe renders a stream compactly for samples.
func (s *Stream) Describe() string {
	out := ""
	for _, f := range s.Frames {
		if out != "" {
			out += " "
		}
		out += frameStr(f)
	}
	return out
}

func frameStr(f *ref.Frame) string {
	names := map[byte]string{0: "cont", 1: "text", 2: "bin", 8: "close", 9: "ping", 10: "pong"}
	n, ok := names[f.Op]
	if !ok {
		n = "op" + itoa(int(f.Op))
	}
	s := n + "(" + itoa(len(f.Payload))
	if f.Fin {
		s += ",fin"
	}
	if f.Rsv != 0 {
		s += ",rsv" + itoa(int(f.Rsv))
	}
	if f.Masked {
		s += ",m"
	}
	if f.LenMSB {
		s += ",announced+2^63"
	}
	return s + ")"
}

func itoa(v int) string {
	if v < 0 {
		return "-" + itoa(-v)
	}
	if v < 10 {
		return string(rune('0' + v))
	}
	return itoa(v/10) + string(rune('0'+v%10))
}

// TransientIn picks one data frame with payload and returns the byte range of
// its payload on the wire (nil if there is none): a temporary read error in
// there hits the Reader while it hands out message data, never while it
// parses a header or feeds a control handler.
func TransientIn(r *eng.Run, frames []*ref.Frame) (ranges [][2]int, inPayload bool) {
	var cand []*ref.Frame
	for _, f := range frames {
		if !ref.IsControl(f.Op) && len(f.Payload) > 0 {
			cand = append(cand, f)
		}
	}
	if len(cand) == 0 {
		return nil, false
	}
	// Or exactly between two frames of a fragmented message: the Read that
	// would fetch the first header byte of a continuation frame fails and has
	// taken nothing.
	var conts []*ref.Frame
	for _, f := range frames {
		if f.Op == ref.OpCont {
			conts = append(conts, f)
		}
	}
	if len(conts) > 0 && r.T.Chance(sim.LFaultAt, 1, 3) {
		f := conts[r.T.Int(sim.LFaultAt, len(conts))]
		r.Probe("temporary_error_between_fragments")
		return [][2]int{{f.Off, f.Off + 1}}, false
	}
	f := cand[r.T.Int(sim.LFaultAt, len(cand))]
	from := f.HdrEnd + r.T.Int(sim.LFaultAt, f.End-f.HdrEnd)
	return [][2]int{{from, f.End}}, true
}
