package wire

import (
	"bytes"
	"compress/flate"
	"errors"
	"fmt"
	"io"

	"github.com/gobwas/ws"
	"github.com/gobwas/ws/wsflate"
	kflate "github.com/klauspost/compress/flate"

	"verif/eng"
	"verif/ref"
	"verif/sim"
)

var (
	deflateTail = []byte{0x00, 0x00, 0xff, 0xff}
	deflateEnd  = []byte{0x01, 0x00, 0x00, 0xff, 0xff}
)

// inflateIndependent inflates a permessage-deflate payload the way RFC 7692
// §7.2.2 says (append 00 00 ff ff), with two decoders that share no code with
// the library: klauspost/compress/flate and compress/flate used directly. A
// stream terminator is appended for the decoders.
func inflateIndependent(payload []byte) ([]byte, error) {
	full := append(append(append([]byte(nil), payload...), deflateTail...), deflateEnd...)
	a, errA := io.ReadAll(kflate.NewReader(bytes.NewReader(full)))
	b, errB := io.ReadAll(flate.NewReader(bytes.NewReader(full)))
	if errA != nil {
		return a, fmt.Errorf("klauspost inflater: %w", errA)
	}
	if errB != nil {
		return b, fmt.Errorf("stdlib inflater: %w", errB)
	}
	if !bytes.Equal(a, b) {
		return a, errors.New("the two independent inflaters disagree")
	}
	return a, nil
}

// deflateIndependent produces a sync-flushed raw DEFLATE stream with the tail
// removed, by an encoder that is not the library's.
func deflateIndependent(msg []byte, which, level int) []byte {
	var buf bytes.Buffer
	if which >= 2 {
		// RFC 7692 §7.2.3.4: a DEFLATE block with BFINAL set, followed by one
		// zero byte so that the receiver's 00 00 ff ff completes an empty
		// stored block.
		if which == 2 {
			w, _ := kflate.NewWriter(&buf, level)
			w.Write(msg)
			w.Close()
		} else {
			w, _ := flate.NewWriter(&buf, level)
			w.Write(msg)
			w.Close()
		}
		return append(buf.Bytes(), 0x00)
	}
	if which == 0 {
		w, _ := kflate.NewWriter(&buf, level)
		w.Write(msg)
		w.Flush()
	} else {
		w, _ := flate.NewWriter(&buf, level)
		w.Write(msg)
		w.Flush()
	}
	b := buf.Bytes()
	return b[:len(b)-4]
}

func drawFlateMsg(r *eng.Run) []byte {
	n := []int{0, 1, 2, 9, 100, 1000, 4096, 33000, 70000}[r.T.Int(sim.LLen, 9)]
	if n > 1000 && !r.T.Chance(sim.LLen, 1, 3) {
		n = r.T.Int(sim.LLen, 1000)
	}
	b := make([]byte, n)
	sim.Fill(b, r.T.U32(sim.LPaySeed), r.T.Int(sim.LPayKind, 4))
	return b
}

// C12: permessage-deflate payloads round-trip and interoperate with standard
// DEFLATE.
// c12DestFault: the destination of the compression writer fails at one write
// call (for good, or only that once). Either some call of the history reports
// an error, or what the destination received inflates to the message: a hole
// in the compressed stream must never go unreported.
func c12DestFault(r *eng.Run) {
	r.SetEntry("wsflate.Writer/destination-fault")
	level := r.T.Range(sim.LCfg, -2, 9)
	msg := drawFlateMsg(r)
	if len(msg) < 8 {
		msg = append(msg, patBytes(3, 0, 8)...)
	}
	dst := NewPipe(r, nil)
	dst.WFailAt, dst.WFailN = r.T.Int(sim.LFaultAt, 8), r.T.Int(sim.LFaultAt, 3)
	dst.FailOnce, dst.NetErr = r.T.Bool(sim.LFault), r.T.Chance(sim.LFault, 1, 3)
	w := wsflate.NewWriter(dst, flateCtor(level))
	var hist []string
	allNil := true
	do := func(name string, err error) {
		hist = append(hist, name+"="+errStr(err))
		if err != nil {
			allNil = false
		}
	}
	pos := 0
	for i, steps := 0, 1+r.T.Int(sim.LHist, 5); i < steps; i++ {
		if r.T.Chance(sim.LHist, 1, 3) {
			do("Flush", w.Flush())
			continue
		}
		k := r.T.Int(sim.LSeg, len(msg)-pos+1)
		_, err := w.Write(msg[pos : pos+k])
		do(fmt.Sprintf("Write(%d)", k), err)
		if err == nil {
			pos += k
		}
	}
	if allNil {
		_, err := w.Write(msg[pos:])
		do(fmt.Sprintf("Write(%d)", len(msg)-pos), err)
	}
	do("Flush", w.Flush())
	if r.T.Bool(sim.LHist) {
		do("Close", w.Close())
	}
	do("Err", w.Err())
	r.Note("C12 destination fault at write call %d after %d bytes (once=%v): level=%d msg=%d bytes history %v", dst.WFailAt, dst.WFailN, dst.FailOnce, level, len(msg), hist)
	if !dst.WriteFailed() {
		return // the history needed fewer destination writes
	}
	r.Fault("compressed_stream_destination_fault")
	r.Res.Nontrivial = true
	if !allNil {
		return
	}
	got, err := inflateIndependent(dst.Out)
	if err != nil || !bytes.Equal(got, msg) {
		r.Failf("corrupt_message_reported_as_success", "destination write call %d failed after %d bytes (once=%v) yet every call returned nil %v; what the destination received does not inflate to the message (%v, %d of %d bytes)", dst.WFailAt, dst.WFailN, dst.FailOnce, hist, err, len(got), len(msg))
	}
}

func C12(r *eng.Run) {
	switch r.T.Int(sim.LEntry, 9) {
	case 8:
		c12DestFault(r)
	case 0, 1, 2:
		c12Writer(r)
	case 3, 4, 5:
		c12Reader(r)
	case 6:
		c12Helpers(r)
	default:
		c12FaultyCompressor(r)
	}
}

func c12Writer(r *eng.Run) {
	r.SetEntry("wsflate.Writer")
	level := r.T.Range(sim.LCfg, -2, 9)
	msg := drawFlateMsg(r)
	dst := NewPipe(r, nil)
	ctor := flateCtor(level)
	if r.T.Chance(sim.LCfg, 1, 4) {
		// Another DEFLATE implementation, or a layer in front of one, hands
		// its output over in pieces of its own liking: the same bytes, other
		// Write boundaries (1..9 bytes, now and then everything).
		ctor = func(d io.Writer) wsflate.Compressor {
			f, _ := flate.NewWriter(&rechunker{dst: d, r: r}, level)
			return f
		}
		r.Probe("compressor_output_rechunked")
	}
	w := wsflate.NewWriter(dst, ctor)
	var hist []string
	pos := 0
	steps := 1 + r.T.Int(sim.LHist, 6)
	// The empty message can be sent without a single Write call.
	noWrite := len(msg) == 0 && r.T.Bool(sim.LHist)
	if noWrite {
		r.Probe("empty_message_without_a_write_call")
	}
	for i := 0; i < steps; i++ {
		switch r.T.Int(sim.LHist, 4) {
		case 0, 1:
			if noWrite {
				continue
			}
			k := r.T.Int(sim.LSeg, len(msg)-pos+1)
			if r.T.Bool(sim.LSeg) {
				k = minInt(k, 1+r.T.Int(sim.LSeg, 9)) // small writes straddle the 4-byte window
			}
			if k > 0 && r.T.Chance(sim.LHist, 1, 5) {
				// The bytes come from a reader (a relay: io.Copy(flateWriter,
				// messageReader)); the reader hands them out in pieces and now
				// and then answers (0, nil), as wsutil.Reader does behind a
				// control frame between two fragments.
				src := &zeroReadSrc{data: msg[pos : pos+k], r: r}
				n, err := io.Copy(w, src)
				hist = append(hist, fmt.Sprintf("io.Copy(%d, %d zero reads)", k, src.zeros))
				if err != nil || int(n) != k {
					r.Failf("unexpected_error", "io.Copy(wsflate.Writer, %d bytes) = %d, %v (history %v)", k, n, err, hist)
				}
				r.Probe("flate_writer_fed_through_io_copy")
				pos += k
				continue
			}
			n, err := w.Write(msg[pos : pos+k])
			hist = append(hist, fmt.Sprintf("Write(%d)", k))
			if err != nil || n != k {
				r.Failf("unexpected_error", "Write(%d) = %d, %v (history %v)", k, n, err, hist)
			}
			pos += k
		case 2:
			hist = append(hist, "Flush")
			if err := w.Flush(); err != nil {
				r.Failf("unexpected_error", "Flush: %v (history %v)", err, hist)
			}
		}
	}
	if !noWrite {
		if n, err := w.Write(msg[pos:]); err != nil || n != len(msg)-pos {
			r.Failf("unexpected_error", "Write(%d) = %d, %v", len(msg)-pos, n, err)
		}
		hist = append(hist, fmt.Sprintf("Write(%d)", len(msg)-pos))
	}
	// The message ends with Flush [, Close] - or, the compressor being a
	// closer (compress/flate is), with Close alone, which flushes what is
	// pending and ends the stream.
	closeOnly := r.T.Chance(sim.LHist, 1, 4)
	if !closeOnly {
		hist = append(hist, "Flush")
		if err := w.Flush(); err != nil {
			r.Failf("unexpected_error", "final Flush: %v (history %v)", err, hist)
		}
	} else {
		r.Probe("message_ended_by_close_without_flush")
	}
	afterFlush := append([]byte(nil), dst.Out...)
	closed := closeOnly || r.T.Bool(sim.LHist)
	if closed {
		hist = append(hist, "Close")
		if err := w.Close(); err != nil {
			r.Failf("unexpected_error", "Close: %v (history %v)", err, hist)
		}
	}
	r.Note("C12 wsflate.Writer level=%d msg=%d bytes history %v -> %d bytes", level, len(msg), hist, len(dst.Out))
	r.Res.Nontrivial = len(hist) > 2
	for i, out := range [][]byte{afterFlush, dst.Out} {
		if i == 0 && closeOnly {
			continue // nothing was promised before the Close
		}
		got, err := inflateIndependent(out)
		if err != nil {
			r.Failf("not_standard_deflate", "writer output (+00 00 ff ff) does not inflate: %v (level %d, history %v, output %x)", err, level, hist, head(out, 24))
		}
		if !bytes.Equal(got, msg) {
			r.Failf("roundtrip_mismatch", "writer output (+00 00 ff ff) inflates to %d bytes, message has %d (level %d, history %v)%s", len(got), len(msg), level, hist, firstDiff(got, msg))
		}
	}
	// And the library's own reader recovers it, under any chunking.
	c12ReadBack(r, dst.Out, msg, "library writer output")
	// One Writer for consecutive messages (Reset between them) whose contents
	// overlap: every message must inflate on its own (no context takeover was
	// negotiated by resetting).
	if r.T.Chance(sim.LHist, 1, 3) {
		base := drawFlateMsg(r)
		if len(base) > 4000 {
			base = base[:4000]
		}
		w := wsflate.NewWriter(nil, flateCtor(level))
		for i := 0; i < 2+r.T.Int(sim.LHist, 2); i++ {
			m := append(append([]byte("shared prefix shared prefix "), base...), byte('0'+i))
			out := NewPipe(r, nil)
			w.Reset(out)
			var e1 error
			if i > 0 && r.T.Chance(sim.LHist, 1, 4) {
				// An empty message, sent without a Write call.
				m = nil
				r.Probe("reused_writer_sends_an_empty_message_without_a_write")
			} else {
				_, e1 = w.Write(m)
			}
			e2 := w.Flush()
			var e3 error
			if r.T.Bool(sim.LHist) {
				e3 = w.Close()
			}
			if e1 != nil || e2 != nil || e3 != nil {
				r.Failf("unexpected_error", "reused wsflate.Writer, message %d: %v %v %v", i, e1, e2, e3)
			}
			got, err := inflateIndependent(out.Out)
			if err != nil || !bytes.Equal(got, m) {
				r.Failf("roundtrip_mismatch", "reused wsflate.Writer (level %d), message %d of %d bytes does not inflate on its own: %v (got %d bytes)", level, i, len(m), err, len(got))
			}
		}
		r.Probe("writer_reused_across_messages")
	}
	if r.T.Chance(sim.LHist, 1, 4) {
		c12TwoWriters(r)
	}
}

// rechunker passes what it is given on in pieces chosen by the tape.
type rechunker struct {
	dst io.Writer
	r   *eng.Run
}

func (c *rechunker) Write(p []byte) (int, error) {
	done := 0
	for done < len(p) {
		k := len(p) - done
		if !c.r.T.Chance(sim.LSeg, 1, 6) {
			k = minInt(k, 1+c.r.T.Int(sim.LSeg, 9))
		}
		n, err := c.dst.Write(p[done : done+k])
		done += n
		if err != nil {
			return done, err
		}
	}
	return done, nil
}

// zeroReadSrc hands its data out in small pieces and sometimes answers
// (0, nil) in between.
type zeroReadSrc struct {
	data  []byte
	pos   int
	zeros int
	r     *eng.Run
}

func (z *zeroReadSrc) Read(p []byte) (int, error) {
	if z.pos >= len(z.data) {
		return 0, io.EOF
	}
	if z.zeros < 4 && z.r.T.Chance(sim.LSeg, 1, 3) {
		z.zeros++
		return 0, nil
	}
	k := minInt(len(p), minInt(len(z.data)-z.pos, 1+z.r.T.Int(sim.LSeg, 600)))
	copy(p, z.data[z.pos:z.pos+k])
	z.pos += k
	return k, nil
}

// c12TwoWriters: two long-lived Writers built on the default helper's
// compressor (two connections of one process), each closed and re-armed with
// Reset between its messages, their calls interleaved by the tape. Every
// message must inflate on its own to what was written to that Writer.
func c12TwoWriters(r *eng.Run) {
	type conn struct {
		w    *wsflate.Writer
		out  *Pipe
		msg  []byte
		pos  int
		open bool
		n    int
	}
	cs := []*conn{{}, {}}
	finish := func(c *conn, k int) {
		if _, err := c.w.Write(c.msg[c.pos:]); err != nil {
			r.Failf("unexpected_error", "writer %d: Write: %v", k, err)
		}
		if err := c.w.Flush(); err != nil {
			r.Failf("unexpected_error", "writer %d: Flush: %v", k, err)
		}
		if r.T.Bool(sim.LHist) {
			if err := c.w.Close(); err != nil {
				r.Failf("unexpected_error", "writer %d: Close: %v", k, err)
			}
		}
		got, err := inflateIndependent(c.out.Out)
		if err != nil || !bytes.Equal(got, c.msg) {
			r.Failf("roundtrip_mismatch", "two Writers on the default helper's compressor: message %d of writer %d (%d bytes) does not inflate on its own to what was written (%v, got %d bytes)", c.n, k, len(c.msg), err, len(got))
		}
		c.open = false
		c.n++
	}
	for step := 0; step < 6+r.T.Int(sim.LHist, 10); step++ {
		k := r.T.Int(sim.LSched, 2)
		c := cs[k]
		if !c.open {
			c.msg = drawFlateMsg(r)
			if len(c.msg) > 3000 {
				c.msg = c.msg[:3000]
			}
			c.pos, c.out, c.open = 0, NewPipe(r, nil), true
			if c.w == nil {
				c.w = wsflate.NewWriter(c.out, wsflate.DefaultHelper.Compressor)
			} else {
				c.w.Reset(c.out)
			}
			continue
		}
		if r.T.Chance(sim.LHist, 1, 3) {
			finish(c, k)
			continue
		}
		n := r.T.Int(sim.LSeg, len(c.msg)-c.pos+1)
		if _, err := c.w.Write(c.msg[c.pos : c.pos+n]); err != nil {
			r.Failf("unexpected_error", "writer %d: Write: %v", k, err)
		}
		c.pos += n
	}
	for k, c := range cs {
		if c.open {
			finish(c, k)
		}
	}
	r.Probe("two_writers_on_default_compressor_interleaved")
}

// c12ReadBack feeds compressed to wsflate.Reader through a segmented source.
func c12ReadBack(r *eng.Run, compressed, msg []byte, what string) {
	src := NewPipe(r, compressed)
	src.SegMode = DrawSeg(r)
	if src.SegMode == SegBoundary {
		src.SegMode = SegTiny
	}
	src.EOFWithData = r.T.Chance(sim.LFault, 1, 3) // last bytes arrive together with io.EOF
	src.ZeroReads = r.T.Chance(sim.LFault, 1, 4)   // now and then a Read returns (0, nil), as wsutil.Reader does between fragments
	var rd io.Reader = src
	byteReader := r.T.Bool(sim.LCfg)
	if byteReader {
		rd = &byteSrc{src}
	}
	fr := wsflate.NewReader(rd, drawDtor(r))
	buf := make([]byte, drawBuf(r))
	var got []byte
	for {
		n, err := fr.Read(buf)
		got = append(got, buf[:n]...)
		if err == io.EOF {
			break
		}
		if err != nil {
			r.Failf("reader_error", "wsflate.Reader over %s (seg=%d byteReader=%v): %v after %d of %d bytes", what, src.SegMode, byteReader, err, len(got), len(msg))
		}
		if len(got) > len(msg)+1 {
			break
		}
	}
	if !bytes.Equal(got, msg) {
		r.Failf("roundtrip_mismatch", "wsflate.Reader over %s (seg=%d byteReader=%v) returned %d bytes, message has %d%s", what, src.SegMode, byteReader, len(got), len(msg), firstDiff(got, msg))
	}
	if err := fr.Close(); err != nil {
		r.Failf("reader_error", "wsflate.Reader.Close: %v", err)
	}
}

// byteSrc adds ReadByte to a Pipe (io.ByteReader sources take another path in
// the library).
type byteSrc struct{ p *Pipe }

func (b *byteSrc) Read(p []byte) (int, error) { return b.p.Read(p) }
func (b *byteSrc) ReadByte() (byte, error) {
	var one [1]byte
	for {
		n, err := b.p.Read(one[:])
		if n == 1 {
			return one[0], nil
		}
		if err != nil {
			return 0, err
		}
	}
}

func c12Reader(r *eng.Run) {
	r.SetEntry("wsflate.Reader")
	msg := drawFlateMsg(r)
	which := r.T.Int(sim.LCfg, 4)
	level := r.T.Range(sim.LCfg, 0, 9)
	if which%2 == 0 && level == 0 {
		level = 1
	}
	if which >= 2 {
		r.Probe("payload_with_bfinal_block")
	}
	comp := deflateIndependent(msg, which, level)
	r.Note("C12 wsflate.Reader over independent encoder %d level %d: %d -> %d bytes", which, level, len(msg), len(comp))
	r.Res.Nontrivial = true
	c12ReadBack(r, comp, msg, fmt.Sprintf("independent encoder %d level %d", which, level))
	// One Reader for consecutive messages (Reset between them), as a
	// connection handler would use it.
	if r.T.Bool(sim.LHist) {
		fr := wsflate.NewReader(nil, drawDtor(r))
		if r.T.Bool(sim.LCfg) {
			// Constructed over the connection's (byte-)reader rather than over
			// nothing: what kind of source the first one was must not stick.
			var first io.Reader = NewPipe(r, nil)
			if r.T.Bool(sim.LCfg) {
				first = &byteSrc{NewPipe(r, nil)}
			}
			fr = wsflate.NewReader(first, drawDtor(r))
			r.Probe("reader_constructed_over_a_source_then_reset")
		}
		for i := 0; i < 3+r.T.Int(sim.LHist, 3); i++ {
			m := drawFlateMsg(r)
			if len(m) > 3000 && !r.T.Chance(sim.LLen, 1, 3) {
				m = m[:3000]
			}
			src := NewPipe(r, deflateIndependent(m, r.T.Int(sim.LCfg, 2), 5))
			src.SegMode = SegSmall
			var rd io.Reader = src
			if (i+r.T.Int(sim.LCfg, 2))%2 == 0 { // mostly alternating kinds of source
				rd = &byteSrc{src}
			}
			fr.Reset(rd)
			if r.T.Chance(sim.LHist, 1, 4) {
				r.Probe("reader_reset_without_reading")
				continue // reset again before anything was read
			}
			if len(m) > 8 && r.T.Chance(sim.LHist, 1, 2) {
				// The application abandons this message after a few bytes.
				io.ReadFull(fr, make([]byte, 3))
				r.Probe("reader_reset_mid_message")
				continue
			}
			got, err := io.ReadAll(fr)
			if err != nil || !bytes.Equal(got, m) {
				r.Failf("roundtrip_mismatch", "reused wsflate.Reader, message %d (%d bytes): got %d bytes, err %v", i, len(m), len(got), err)
			}
		}
		r.Probe("reader_reused_across_messages")
	}
	// A Reader attached to a buffer that is still empty (the application's
	// receive buffer): the compressed message is put there afterwards.
	if r.T.Chance(sim.LHist, 1, 4) {
		m := drawFlateMsg(r)
		if len(m) > 3000 {
			m = m[:3000]
		}
		comp := deflateIndependent(m, r.T.Int(sim.LCfg, 4), 5)
		var buf bytes.Buffer
		fr := wsflate.NewReader(&buf, drawDtor(r))
		if r.T.Bool(sim.LHist) {
			// ... after an earlier message through the same Reader.
			buf.Write(deflateIndependent([]byte("first"), 1, 5))
			if got, err := io.ReadAll(fr); err != nil || string(got) != "first" {
				r.Failf("roundtrip_mismatch", "wsflate.Reader over a bytes.Buffer, first message: %q, %v", got, err)
			}
			buf.Reset()
			fr.Reset(&buf)
		}
		buf.Write(comp)
		got, err := io.ReadAll(fr)
		if err != nil || !bytes.Equal(got, m) {
			r.Failf("roundtrip_mismatch", "wsflate.Reader attached to an empty bytes.Buffer that was filled afterwards (%d bytes): got %d bytes, err %v", len(m), len(got), err)
		}
		r.Probe("reader_attached_to_a_buffer_filled_later")
	}
	// One Reader over one source that carries message after message: it
	// reports io.EOF at the end of each and then goes on with the next (what
	// a frame reader does), through Read or ReadByte.
	if r.T.Chance(sim.LHist, 1, 3) {
		src := &seqSource{byteReader: r.T.Bool(sim.LCfg), max: 1 + r.T.Int(sim.LSeg, 17)}
		var msgs [][]byte
		for i := 0; i < 2+r.T.Int(sim.LHist, 3); i++ {
			m := drawFlateMsg(r)
			if len(m) > 2000 {
				m = m[:2000]
			}
			msgs = append(msgs, m)
			src.parts = append(src.parts, deflateIndependent(m, r.T.Int(sim.LCfg, 2), 1+r.T.Int(sim.LCfg, 9)))
		}
		var rd io.Reader = src
		if !src.byteReader {
			rd = struct{ io.Reader }{src}
		}
		fr := wsflate.NewReader(rd, drawDtor(r))
		for i, m := range msgs {
			if i > 0 {
				fr.Reset(rd)
			}
			got, err := io.ReadAll(fr)
			if err != nil || !bytes.Equal(got, m) {
				r.Failf("roundtrip_mismatch", "wsflate.Reader over a source carrying %d messages (byteReader=%v), message %d (%d bytes): got %d bytes, err %v", len(msgs), src.byteReader, i, len(m), len(got), err)
			}
			if src.cur != i+1 || src.off != 0 {
				r.Failf("reader_overread", "wsflate.Reader, message %d: the source stands at message %d offset %d afterwards (bytes of the next message were taken or some were left)", i, src.cur, src.off)
			}
		}
		r.Probe("reader_over_self_advancing_source")
	}
}

// seqSource carries several compressed messages: at the end of each it
// returns io.EOF once, then continues with the next one.
type seqSource struct {
	parts      [][]byte
	cur, off   int
	byteReader bool
	max        int
}

func (s *seqSource) Read(p []byte) (int, error) {
	if s.cur >= len(s.parts) {
		return 0, io.EOF
	}
	if len(p) == 0 {
		return 0, nil
	}
	b := s.parts[s.cur][s.off:]
	if len(b) == 0 {
		s.cur, s.off = s.cur+1, 0
		return 0, io.EOF
	}
	n := copy(p[:minInt(len(p), s.max)], b)
	s.off += n
	return n, nil
}

func (s *seqSource) ReadByte() (byte, error) {
	var one [1]byte
	n, err := s.Read(one[:])
	if n == 1 {
		return one[0], nil
	}
	return 0, err
}

func c12Helpers(r *eng.Run) {
	r.SetEntry("wsflate.Helper")
	if r.T.Chance(sim.LLen, 1, 120) {
		// Megabytes of one byte value: the best case for DEFLATE (a little
		// over 1000:1), the worst for whoever bounds output by input.
		n := (4 + r.T.Int(sim.LLen, 5)) << 20
		big := bytes.Repeat([]byte{byte(r.T.Int(sim.LPayKind, 256))}, n)
		p, err := wsflate.DefaultHelper.Compress(big)
		if err != nil {
			r.Failf("unexpected_error", "Compress(%d equal bytes): %v", n, err)
		}
		if got, ierr := inflateIndependent(p); ierr != nil || !bytes.Equal(got, big) {
			r.Failf("roundtrip_mismatch", "Compress(%d equal bytes) gave %d bytes that do not inflate to the original (%v, %d bytes)", n, len(p), ierr, len(got))
		}
		var back []byte
		if r.T.Bool(sim.LCfg) {
			back, err = wsflate.DefaultHelper.Decompress(p)
		} else {
			var df ws.Frame
			df, err = wsflate.DecompressFrame(ws.Frame{Header: ws.Header{Fin: true, Rsv: 4, OpCode: ws.OpBinary, Length: int64(len(p))}, Payload: p})
			back = df.Payload
		}
		if err != nil || !bytes.Equal(back, big) {
			r.Failf("roundtrip_mismatch", "%d equal bytes compressed to %d: the decompressing helper returned %d bytes, err %v", n, len(p), len(back), err)
		}
		r.Probe("helper_payload_of_megabytes_compressing_1000_to_1")
		r.Res.Nontrivial = true
		return
	}
	msg := drawFlateMsg(r)
	if len(msg) > 5000 && !r.T.Chance(sim.LLen, 1, 3) {
		msg = msg[:5000]
	}
	if len(msg) > 65536 {
		r.Probe("helper_payload_above_64k")
	}
	keep := append([]byte(nil), msg...)
	f := ws.Frame{Header: ws.Header{Fin: true, OpCode: ws.OpText, Length: int64(len(msg))}, Payload: msg}
	if r.T.Bool(sim.LOp) {
		f.Header.OpCode = ws.OpBinary
	}
	f.Header.Rsv = byte(r.T.Int(sim.LMisc, 4)) // rsv2/rsv3 only
	if r.T.Bool(sim.LMask) {
		f.Header.Masked, f.Header.Mask = true, drawMask(r)
	}
	r.Res.Nontrivial = true
	variant := r.T.Int(sim.LCfg, 4)
	// The buffer handed to the ...Buffer / ...To forms: a bytes.Buffer, or the
	// application's own type that offers Write (and Bytes) and nothing else.
	plain := r.T.Bool(sim.LCfg)
	newBuf := func() wsflate.Buffer {
		if plain {
			return &plainBuf{}
		}
		return &bytes.Buffer{}
	}
	if plain && (variant == 1 || variant == 3) {
		r.Probe("helper_destination_is_a_plain_writer")
	}
	r.Note("C12 helper variant=%d frame %+v (%d bytes)", variant, f.Header, len(msg))
	if !r.T.Chance(sim.LFault, 7, 8) {
		// Non-final frames are refused.
		nf := f
		nf.Header.Fin = false
		if _, err := wsflate.CompressFrame(nf); err == nil {
			r.Failf("nonfinal_accepted", "CompressFrame accepted a non-final frame")
		}
		// Non-final frames are refused by the decompressing helper too, with
		// or without the compression bit (a middle fragment has none).
		if _, err := wsflate.DecompressFrame(nf); err == nil {
			r.Failf("nonfinal_accepted", "DecompressFrame accepted a non-final frame (without the compression bit)")
		}
		nf.Header.Rsv |= 4
		if _, err := wsflate.DecompressFrame(nf); err == nil {
			r.Failf("nonfinal_accepted", "DecompressFrame accepted a non-final frame")
		}
		return
	}
	var cf ws.Frame
	var err error
	if variant < 2 && r.T.Chance(sim.LCfg, 1, 6) {
		// A frame put together as a struct literal, its length left for the
		// helper to fill in (the helper sets Header.Length from the payload it
		// produces; the payload to compress is Frame.Payload).
		f.Header.Length = 0
		r.Probe("helper_frame_without_length")
	}
	switch variant {
	case 0:
		cf, err = wsflate.CompressFrame(f)
	case 1:
		cf, err = wsflate.CompressFrameBuffer(newBuf(), f)
	case 3:
		buf := newBuf()
		err = wsflate.DefaultHelper.CompressTo(buf, msg)
		cf = f
		cf.Payload = buf.Bytes()
		cf.Header.Length = int64(len(cf.Payload))
		cf.Header.Rsv |= 4
	default:
		var p []byte
		p, err = wsflate.DefaultHelper.Compress(msg)
		cf = f
		cf.Payload = p
		cf.Header.Length = int64(len(p))
		cf.Header.Rsv |= 4
	}
	if err != nil {
		r.Failf("unexpected_error", "compress helper: %v", err)
	}
	if !bytes.Equal(msg, keep) {
		r.FailProp("C17", "caller_slice_modified", "compress helper modified the caller's payload")
	}
	if r.T.Bool(sim.LHist) {
		// The sender prepares the next frame before this one has gone out.
		other := ws.NewFrame(ws.OpBinary, true, patBytes(41, 0, 1+r.T.Int(sim.LLen, 3000)))
		switch variant {
		case 0:
			wsflate.CompressFrame(other)
		case 1:
			var buf2 bytes.Buffer
			wsflate.CompressFrameBuffer(&buf2, other)
		default:
			wsflate.DefaultHelper.Compress(other.Payload)
		}
		r.Probe("second_frame_compressed_before_first_is_sent")
	}
	wantH := f.Header
	wantH.Rsv |= 4
	wantH.Length = int64(len(cf.Payload))
	if cf.Header != wantH {
		r.Failf("helper_header", "compressed frame header %+v, expected %+v", cf.Header, wantH)
	}
	got, ierr := inflateIndependent(cf.Payload)
	if ierr != nil || !bytes.Equal(got, keep) {
		r.Failf("roundtrip_mismatch", "compressed frame payload does not inflate to the original (%v)%s", ierr, firstDiff(got, keep))
	}
	// And back, also from an independent encoder's output.
	in := cf
	if r.T.Bool(sim.LCfg) {
		in.Payload = deflateIndependent(keep, r.T.Int(sim.LCfg, 4), 5)
		in.Header.Length = int64(len(in.Payload))
	}
	// The payload as a receiver has it: part of a larger buffer with the next
	// frame's bytes right behind it.
	room := make([]byte, len(in.Payload)+24)
	copy(room, in.Payload)
	for i := len(in.Payload); i < len(room); i++ {
		room[i] = 0xEE
	}
	in.Payload = room[:len(in.Payload)]
	roomKeep := append([]byte(nil), room...)
	defer func() {
		if !bytes.Equal(room, roomKeep) {
			r.FailProp("C17", "caller_slice_modified", "decompress helper (variant %d) changed the caller's buffer (payload of %d bytes inside a %d byte buffer)%s", variant, len(in.Payload), len(room), firstDiff(room, roomKeep))
		}
	}()
	var df ws.Frame
	switch variant {
	case 0:
		df, err = wsflate.DecompressFrame(in)
	case 1:
		df, err = wsflate.DecompressFrameBuffer(newBuf(), in)
	case 3:
		buf := newBuf()
		err = wsflate.DefaultHelper.DecompressTo(buf, in.Payload)
		df = f
		df.Payload = buf.Bytes()
		df.Header.Length = int64(len(df.Payload))
	default:
		var p []byte
		p, err = wsflate.DefaultHelper.Decompress(in.Payload)
		df = f
		df.Payload = p
		df.Header.Length = int64(len(p))
	}
	if err != nil {
		r.Failf("unexpected_error", "decompress helper: %v", err)
	}
	wantD := f.Header
	wantD.Length = int64(len(keep))
	if df.Header != wantD || !bytes.Equal(df.Payload, keep) {
		r.Failf("roundtrip_mismatch", "decompressed frame: header %+v (expected %+v), payload %d bytes%s", df.Header, wantD, len(df.Payload), firstDiff(df.Payload, keep))
	}
	// Other Helper values of the same process, after the default one has been
	// used: each works with its own compressor.
	if r.T.Chance(sim.LHist, 1, 3) {
		broken := wsflate.Helper{
			Compressor: func(d io.Writer) wsflate.Compressor {
				c := &faultyCompressor{dst: d, mode: 0} // never writes the sync marker
				c.fw, _ = flate.NewWriter(d, 5)
				return c
			},
			Decompressor: func(src io.Reader) wsflate.Decompressor { return flate.NewReader(src) },
		}
		if p, err := broken.Compress(keep); err == nil {
			if got, ierr := inflateIndependent(p); ierr != nil || !bytes.Equal(got, keep) {
				r.Failf("corrupt_message_reported_as_success", "a Helper whose compressor never ends a flush with the tail returned %d bytes and no error after the default Helper had been used; they do not inflate to the message (%v)", len(p), ierr)
			}
		}
		// ... and one whose Flush is right but whose Close appends a trailer
		// (a checksum, zlib style) or fails.
		closeFails := r.T.Bool(sim.LFault)
		tr := drawTrailer(r)
		trailer := wsflate.Helper{
			Compressor: func(d io.Writer) wsflate.Compressor {
				f, _ := flate.NewWriter(d, 5)
				return trailerCompressor{f, d, closeFails, tr}
			},
			Decompressor: func(src io.Reader) wsflate.Decompressor { return flate.NewReader(src) },
		}
		if p, err := trailer.Compress(keep); err == nil {
			if got, ierr := inflateIndependent(p); ierr != nil || !bytes.Equal(got, keep) || closeFails {
				r.Failf("corrupt_message_reported_as_success", "a Helper whose compressor's Close %s returned %d bytes and no error (inflate: %v)", map[bool]string{true: "fails", false: fmt.Sprintf("appends the trailer %x", tr)}[closeFails], len(p), ierr)
			}
		}
		if fr, err := trailer.CompressFrame(ws.NewBinaryFrame(keep)); err == nil {
			if got, ierr := inflateIndependent(fr.Payload); ierr != nil || !bytes.Equal(got, keep) || closeFails {
				r.Failf("corrupt_message_reported_as_success", "CompressFrame of a Helper whose compressor's Close %s returned %d bytes and no error (inflate: %v)", map[bool]string{true: "fails", false: fmt.Sprintf("appends the trailer %x", tr)}[closeFails], len(fr.Payload), ierr)
			}
		}
		lvl := []int{0, 1, 9}[r.T.Int(sim.LCfg, 3)]
		own := wsflate.Helper{
			Compressor:   func(d io.Writer) wsflate.Compressor { f, _ := flate.NewWriter(d, lvl); return f },
			Decompressor: func(src io.Reader) wsflate.Decompressor { return flate.NewReader(src) },
		}
		p, err := own.Compress(keep)
		if err != nil {
			r.Failf("unexpected_error", "Helper with a level %d compressor: %v", lvl, err)
		}
		if got, ierr := inflateIndependent(p); ierr != nil || !bytes.Equal(got, keep) {
			r.Failf("roundtrip_mismatch", "Helper with a level %d compressor: payload does not inflate to the original (%v)", lvl, ierr)
		}
		// What a Writer built directly on that compressor emits for the
		// same calls (Write, Flush, Close).
		var direct bytes.Buffer
		dw := wsflate.NewWriter(&direct, own.Compressor)
		dw.Write(keep)
		dw.Flush()
		dw.Close()
		if want := direct.Bytes(); !bytes.Equal(p, want) {
			r.Failf("helper_ignores_its_compressor", "Helper with a level %d compressor produced %d bytes that are not what that compressor emits (%d bytes)%s", lvl, len(p), len(want), firstDiff(p, want))
		}
		back, err := own.Decompress(p)
		if err != nil || !bytes.Equal(back, keep) {
			r.Failf("roundtrip_mismatch", "Helper with a level %d compressor: Decompress gave %d bytes, err %v", lvl, len(back), err)
		}
		r.Probe("several_helper_values_in_one_process")
	}
	// An uncompressed frame passes through untouched.
	if variant < 2 {
		pf, err := wsflate.DecompressFrame(f)
		if err != nil || pf.Header != f.Header || !bytes.Equal(pf.Payload, keep) {
			r.Failf("helper_header", "DecompressFrame changed a frame without the compression bit (err=%v)", err)
		}
	}
}

// plainBuf is an application's buffer type: Write and Bytes, nothing else.
type plainBuf struct{ b []byte }

func (p *plainBuf) Write(b []byte) (int, error) { p.b = append(p.b, b...); return len(b), nil }
func (p *plainBuf) Bytes() []byte               { return p.b }

// trailerCompressor compresses correctly; its Close ends the stream and then
// appends four more bytes (a checksum), or fails.
type trailerCompressor struct {
	fw      *flate.Writer
	dst     io.Writer
	fails   bool
	trailer []byte
}

// drawTrailer: what such a compressor's Close leaves behind the flushed
// stream - a checksum behind a final block, or (zlib's Z_FINISH) just an empty
// final fixed-Huffman block.
func drawTrailer(r *eng.Run) []byte {
	switch r.T.Int(sim.LFault, 4) {
	case 0:
		return []byte{0xde, 0xad, 0xbe, 0xef}
	case 1:
		return []byte{0x03, 0x00}
	case 2:
		return []byte{0x03, 0x00, 0x12, 0x34, 0x56, 0x78}
	}
	return patBytes(7, 0, 1+r.T.Int(sim.LLen, 6))
}

func (c trailerCompressor) Write(p []byte) (int, error) { return c.fw.Write(p) }
func (c trailerCompressor) Flush() error                { return c.fw.Flush() }
func (c trailerCompressor) Close() error {
	if c.fails {
		return ErrInjected
	}
	if len(c.trailer) == 4 {
		// A final stored block, then the checksum.
		if err := c.fw.Close(); err != nil {
			return err
		}
	} else if err := c.fw.Flush(); err != nil {
		return err
	}
	_, err := c.dst.Write(c.trailer)
	return err
}

// faultyCompressor wraps flate and misbehaves at Flush. It deliberately has
// no Close method: the Compressor interface only asks for Write and Flush.
type faultyCompressor struct {
	fw   *flate.Writer
	dst  io.Writer
	mode int
	hold bytes.Buffer
	n    int
}

func (c *faultyCompressor) Write(p []byte) (int, error) {
	c.n += len(p)
	if c.mode == 2 && c.n > 10 {
		return 0, ErrInjected
	}
	return c.fw.Write(p)
}

func (c *faultyCompressor) Flush() error {
	switch c.mode {
	case 0: // no sync marker at all
		return nil
	case 1: // drops the last byte of what the flush produced
		err := c.fw.Flush()
		b := c.hold.Bytes()
		if len(b) > 0 {
			c.dst.Write(b[:len(b)-1])
		}
		c.hold.Reset()
		return err
	case 3: // sync marker followed by a stray byte
		err := c.fw.Flush()
		c.dst.Write(c.hold.Bytes())
		c.hold.Reset()
		c.dst.Write([]byte{0x00})
		return err
	}
	return c.fw.Flush() // modes 2 (write error) and 4 (well-behaved, Close-less)
}

// closingCompressor is the well-behaved control with a Close method.
type closingCompressor struct{ *faultyCompressor }

func (c closingCompressor) Close() error { return c.fw.Close() }

// c12TrailerCompressor: a Writer on a compressor whose Flush is right and
// whose Close is not (it appends a trailer or fails): Close must not report
// success for a stream that no longer ends with the tail, unless what was
// produced still is the message.
func c12TrailerCompressor(r *eng.Run) {
	msg := drawFlateMsg(r)
	fails := r.T.Chance(sim.LFault, 1, 4)
	tr := drawTrailer(r)
	dst := NewPipe(r, nil)
	w := wsflate.NewWriter(dst, func(d io.Writer) wsflate.Compressor {
		f, _ := flate.NewWriter(d, 5)
		return trailerCompressor{f, d, fails, tr}
	})
	r.Fault("compressor_close_leaves_a_trailer")
	var calls []string
	allNil := true
	do := func(name string, err error) {
		calls = append(calls, name+"="+errStr(err))
		if err != nil {
			allNil = false
		}
	}
	k := r.T.Int(sim.LSeg, len(msg)+1)
	_, e := w.Write(msg[:k])
	do("Write", e)
	if r.T.Bool(sim.LHist) {
		do("Flush", w.Flush())
	}
	_, e = w.Write(msg[k:])
	do("Write", e)
	do("Flush", w.Flush())
	if !allNil {
		r.Failf("unexpected_error", "compressor with a conformant Flush: %v", calls)
	}
	if got, ierr := inflateIndependent(dst.Out); ierr != nil || !bytes.Equal(got, msg) {
		r.Failf("roundtrip_mismatch", "after Flush the output does not inflate to the message (%v)", ierr)
	}
	cerr := w.Close()
	do("Close", cerr)
	r.Note("C12 compressor whose Close leaves %x (fails=%v): %v", tr, fails, calls)
	if cerr == nil {
		if got, ierr := inflateIndependent(dst.Out); ierr != nil || !bytes.Equal(got, msg) || fails {
			r.Failf("corrupt_message_reported_as_success", "Close of a compressor that %s returned nil; the output (+00 00 ff ff) inflates to %d of %d bytes (%v)", map[bool]string{true: "fails", false: fmt.Sprintf("appends the trailer %x", tr)}[fails], len(got), len(msg), ierr)
		}
	} else if w.Err() == nil {
		r.Failf("error_not_sticky", "Close returned %v but Err() is nil", cerr)
	}
}

var compFaultNames = []string{"compressor_flush_without_sync", "compressor_drops_last_byte", "compressor_write_error", "compressor_stray_byte_after_sync", "", ""}

func c12FaultyCompressor(r *eng.Run) {
	r.SetEntry("wsflate.Writer/custom-compressor")
	mode := r.T.Int(sim.LFault, 7) // 4: correct without Close, 5: correct with Close, 6: Flush right, Close leaves a trailer
	if mode == 6 {
		c12TrailerCompressor(r)
		return
	}
	msg := drawFlateMsg(r)
	if len(msg) < 16 {
		msg = append(msg, patBytes(1, 0, 16)...)
	}
	dst := NewPipe(r, nil)
	// Optionally the Writer has already carried a good message with a healthy
	// compressor instance; the faulty one is what the constructor hands out
	// at the Reset.
	goodFirst := mode <= 3 && r.T.Bool(sim.LHist)
	ninst := 0
	w := wsflate.NewWriter(dst, func(d io.Writer) wsflate.Compressor {
		ninst++
		if goodFirst && ninst == 1 {
			c := &faultyCompressor{dst: d, mode: 4}
			c.fw, _ = flate.NewWriter(d, 5)
			return c
		}
		c := &faultyCompressor{dst: d, mode: mode}
		if mode == 1 || mode == 3 {
			c.fw, _ = flate.NewWriter(&c.hold, 5)
		} else {
			c.fw, _ = flate.NewWriter(d, 5)
		}
		if mode == 5 {
			c.mode = 4
			return closingCompressor{c}
		}
		return c
	})
	if goodFirst {
		if _, err := w.Write([]byte("a first, healthy message")); err != nil {
			r.Failf("unexpected_error", "healthy first message: %v", err)
		}
		if err := w.Flush(); err != nil {
			r.Failf("unexpected_error", "healthy first message: Flush: %v", err)
		}
		dst = NewPipe(r, nil)
		w.Reset(dst)
		r.Probe("faulty_compressor_after_healthy_message")
	}
	if compFaultNames[mode] != "" {
		r.Fault(compFaultNames[mode])
	} else {
		r.Res.Nontrivial = true
	}
	// History, within the documented contract ("after all data has been
	// written client should call Flush()"): Write, Flush [, Close] or
	// Write, Flush, Write, Flush, Close. A Close behind unflushed data that
	// follows an earlier Flush silently drops that data on the unchanged tree
	// (compressor without Close): outside the contract, not generated
	// (DESIGN §8).
	// (The fourth history, Write then Close with no Flush at all - the way the
	// package's example server ends a message - is judged by one rule only:
	// if every call reports success, what was sent inflates to the message.)
	hist := r.T.Int(sim.LHist, 4)
	var calls []string
	allNil := true
	flushed := true
	var flushErr error
	do := func(name string, err error) {
		calls = append(calls, name+"="+errStr(err))
		if err != nil {
			allNil = false
		}
	}
	written := append([]byte(nil), msg...)
	_, werr := w.Write(msg)
	do("Write", werr)
	if hist == 3 {
		flushed = false
		do("Close", w.Close())
		r.Probe("custom_compressor_message_ended_with_close_only")
	} else {
		flushErr = w.Flush()
		do("Flush", flushErr)
	}
	switch hist {
	case 1:
		do("Close", w.Close())
	case 2:
		more := patBytes(9, 0, 1+r.T.Int(sim.LLen, 40000))
		_, e := w.Write(more)
		do("Write", e)
		if e == nil {
			written = append(written, more...)
		}
		e = w.Flush()
		do("Flush", e)
		if flushErr == nil {
			flushErr = e
		}
		do("Close", w.Close())
	}
	r.Note("C12 custom compressor mode=%d msg=%d history %v", mode, len(msg), calls)
	if allNil {
		got, ierr := inflateIndependent(dst.Out)
		if ierr != nil || !bytes.Equal(got, written) {
			r.Failf("corrupt_message_reported_as_success", "compressor mode %d: every call returned nil (%v) but the output (+00 00 ff ff) does not inflate to the %d bytes written (%v, got %d bytes)", mode, calls, len(written), ierr, len(got))
		}
	}
	if mode == 2 && werr == nil {
		r.Failf("compressor_error_swallowed", "compressor Write error was not returned")
	}
	if flushed && flushErr == nil && (mode == 0 || mode == 1 || mode == 3) {
		r.Failf("bad_tail_not_reported", "compressor fault mode %d (flush without the 00 00 ff ff tail) was reported as success by Flush", mode)
	}
	if (mode == 4 || mode == 5) && !allNil && hist != 3 {
		r.Failf("unexpected_error", "well-behaved compressor (mode %d): %v", mode, calls)
	}
	// The error is sticky.
	if flushed && flushErr != nil {
		if _, err := w.Write([]byte("x")); err == nil {
			r.Failf("error_not_sticky", "wsflate.Writer accepted a Write after a failed Flush")
		}
	}
	_ = ref.OpText
}
