package wire

import (
	"bytes"
	"io"

	"github.com/gobwas/ws"
	"github.com/gobwas/ws/wsutil"

	"verif/eng"
	"verif/ref"
	"verif/sim"
)

// hugeSrc is a transport that produces head | size payload bytes | tail
// without holding the payload: what the payload bytes are is whatever the
// caller's buffer held (the scenario counts them, it does not look at them).
type hugeSrc struct {
	r          *eng.Run
	head, tail []byte
	size       int64
	reads      int64
}

func (s *hugeSrc) Read(p []byte) (int, error) {
	s.reads++
	s.r.Res.Steps++
	if s.reads > 1<<22 {
		panic(eng.Hang{What: "transport operation budget exceeded (huge frame)"})
	}
	if len(p) == 0 {
		return 0, nil
	}
	if len(s.head) > 0 {
		n := copy(p, s.head[:minInt(len(s.head), 1+int(s.reads%5))])
		s.head = s.head[n:]
		return n, nil
	}
	if s.size > 0 {
		n := int64(len(p))
		if s.reads%1000 == 7 {
			n = 1 // a short read now and then
		}
		if n > s.size {
			n = s.size
		}
		s.size -= n
		return int(n), nil
	}
	if len(s.tail) > 0 {
		n := copy(p, s.tail)
		s.tail = s.tail[n:]
		return n, nil
	}
	return 0, io.EOF
}

// c04Huge: frames of 2^32 bytes and more (the 64-bit length form used in
// earnest). The Reader announces the exact length, hands out or skips exactly
// that many bytes, and is ready for the message behind it; when the stream
// ends early the cut is reported.
func c04Huge(r *eng.Run) {
	r.SetEntry("Reader/frame-of-4GiB-and-more")
	side := ref.Side(r.T.Int(sim.LSide, 2))
	mode := r.T.Int(sim.LAct, 4) // 0 Discard, 1 read to the end, 2 the stream ends early, 3 as the last fragment of a message
	sizes := []int64{1 << 32, 1<<32 + 5, 1<<32 + 70001, 3<<31 + 1, 1<<33 - 1}
	size := sizes[r.T.Int(sim.LSize, len(sizes))]
	present := size
	if mode == 2 {
		size = []int64{1<<32 + 1, 1<<40 + 3, 1<<62 + 1, 1<<63 - 1}[r.T.Int(sim.LSize, 4)]
		present = int64(r.T.Int(sim.LLen, 5000))
	}
	masked := side == ref.Server
	if masked && mode != 0 && mode != 2 {
		// Unmasking gigabytes takes seconds: masked frames are only skipped
		// (Discard works on the raw bytes) or cut.
		mode = 0
	}
	var head []byte
	if mode == 3 {
		first := &ref.Frame{Op: ref.OpBinary, Payload: patBytes(5, 0, 1+r.T.Int(sim.LLen, 9))}
		head = ref.Encode([]*ref.Frame{first})
	}
	nFirst := 0
	if mode == 3 {
		nFirst = len(head) - 2
	}
	// The huge frame's header by hand (127 form, 8 length bytes).
	b0 := byte(0x80 | ref.OpBinary)
	if mode == 3 {
		b0 = 0x80 | ref.OpCont
	}
	hdr := []byte{b0, 127}
	for i := 7; i >= 0; i-- {
		hdr = append(hdr, byte(uint64(size)>>(8*uint(i))))
	}
	if masked {
		hdr[1] |= 0x80
		m := drawMask(r)
		hdr = append(hdr, m[:]...)
	}
	head = append(head, hdr...)
	after := &ref.Frame{Fin: true, Op: ref.OpText, Payload: []byte("after the big one")}
	if masked {
		after.Masked, after.Mask = true, drawMask(r)
	}
	src := &hugeSrc{r: r, head: head, size: present}
	if mode != 2 {
		src.tail = ref.Encode([]*ref.Frame{after})
	}
	rd := wsutil.NewReader(src, sideState(side))
	r.Note("C04 huge frame: side=%d mode=%d announced=%d present=%d", side, mode, size, present)
	r.Probe("frame_of_4GiB_and_more")
	r.Res.Nontrivial = true
	h, err := rd.NextFrame()
	if err != nil {
		r.Failf("valid_stream_error", "NextFrame: %v", err)
	}
	if mode == 3 {
		if h.Length != int64(nFirst) || h.Fin {
			r.Failf("wrong_header", "first fragment header %+v", h)
		}
	} else if h.Length != size || h.OpCode != ws.OpBinary || !h.Fin || h.Masked != masked {
		r.Failf("wrong_header", "NextFrame announced %+v for a final binary frame of %d bytes", h, size)
	}
	total := size + int64(nFirst)
	switch mode {
	case 0:
		if err := rd.Discard(); err != nil {
			r.Failf("valid_stream_error", "Discard of a %d byte frame: %v", size, err)
		}
	case 1, 3:
		if mode == 3 {
			rd.OnContinuation = func(ch ws.Header, _ io.Reader) error {
				if ch.Length != size || !ch.Fin || ch.OpCode != ws.OpContinuation {
					r.Failf("wrong_continuation_header", "OnContinuation was given %+v for a final continuation of %d bytes", ch, size)
				}
				return nil
			}
		}
		n, err := io.Copy(io.Discard, rd)
		if err != nil || n != total {
			r.Failf("wrong_payload", "reading a message of %d bytes (last frame %d): %d bytes handed out, %v", total, size, n, err)
		}
	case 2:
		n, err := io.Copy(io.Discard, rd)
		if err == nil {
			r.FailProp("C16", "success_for_cut_unit", "a frame announcing %d bytes of which %d arrived was read to a clean end (%d bytes)", size, present, n)
		}
		if n != present {
			r.Failf("wrong_payload", "a frame announcing %d bytes of which %d arrived: %d handed out before %v", size, present, n, err)
		}
		r.D.Add(uint64(n))
		return
	}
	h, err = rd.NextFrame()
	if err != nil || h.OpCode != ws.OpText || !h.Fin || h.Length != int64(len(after.Payload)) {
		r.Failf("missing_delivery", "after the %d byte frame NextFrame returned %+v, %v (expected the text message behind it)", size, h, err)
	}
	got, err := io.ReadAll(rd)
	if err != nil || !bytes.Equal(got, after.Payload) {
		r.Failf("wrong_payload", "the message behind the %d byte frame read as %q, %v", size, got, err)
	}
	if _, err := rd.NextFrame(); err != io.EOF {
		r.Failf("valid_stream_error", "at the end of the stream NextFrame returned %v", err)
	}
	r.D.Add(uint64(src.reads))
}
