package wire

import (
	"bytes"
	"compress/flate"
	"fmt"
	"io"
	"math/rand"
	"reflect"

	"github.com/gobwas/httphead"
	"github.com/gobwas/ws"
	"github.com/gobwas/ws/wsflate"
	"github.com/gobwas/ws/wsutil"

	"verif/eng"
	"verif/ref"
	"verif/sim"
)

// C18: reset / pooled reuse makes objects behave as new. Differential oracle:
// the transcript of history H2 on an object that went through (H1, Reset)
// equals the transcript of H2 on a freshly constructed object with the same
// configuration.
func C18(r *eng.Run) {
	switch r.T.Int(sim.LEntry, 12) {
	case 0, 1, 2, 3:
		c18Writer(r, 0)
	case 4:
		c18Writer(r, 1) // ResetOp
	case 5:
		c18Writer(r, 2) // PutWriter/GetWriter
	case 6:
		c18FlateWriter(r)
	case 7:
		c18FlateReader(r)
	case 8:
		c18Cipher(r)
	case 9:
		c18UTF8(r)
	case 10:
		c18Extension(r)
	default:
		c18ReaderNext(r)
	}
}

func errStr(err error) string {
	if err == nil {
		return "<nil>"
	}
	return err.Error()
}

func transcript(wr *WRun) []string {
	var out []string
	for _, ob := range wr.Obs {
		out = append(out, fmt.Sprintf("%s -> n=%d err=%s size=%d avail=%d buffered=%d sent=%d", ob.Op, ob.N, errStr(ob.Err), ob.Size, ob.Available, ob.Buffered, ob.WireLen))
	}
	return out
}

func rawLen(r *eng.Run, w *wsutil.Writer) int {
	f := reflect.ValueOf(w).Elem().FieldByName("raw")
	if !f.IsValid() || f.Kind() != reflect.Slice {
		r.Internalf("cannot read the buffer length of wsutil.Writer (field raw)")
	}
	return f.Len()
}

func diffTranscripts(r *eng.Run, rule, what string, a, b []string, wa, wb []byte) {
	for i := 0; i < len(a) || i < len(b); i++ {
		var x, y string
		if i < len(a) {
			x = a[i]
		}
		if i < len(b) {
			y = b[i]
		}
		if x != y {
			r.Failf(rule, "%s: step %d differs:\n  reused: %s\n  fresh:  %s", what, i, x, y)
		}
	}
	if !bytes.Equal(wa, wb) {
		r.Failf(rule, "%s: bytes sent differ between the reused and the fresh instance (%d vs %d bytes)%s", what, len(wa), len(wb), firstDiff(wa, wb))
	}
}

func c18Writer(r *eng.Run, mode int) {
	names := []string{"Writer.Reset", "Writer.ResetOp", "PutWriter/GetWriter"}
	r.SetEntry(names[mode])
	cfg1 := drawWCfg(r)
	poolable := false
	if mode == 2 {
		cfg1.Ctor = 4
		cfg1.Size = []int{7, 100, 128, 129, 256, 1000, 4096}[r.T.Int(sim.LSize, 7)]
		if r.T.Bool(sim.LCfg) {
			// PutWriter only keeps writers whose Size() is a pool class:
			// NewWriterSize(n) with n a power of two gives exactly that.
			cfg1.Ctor = 1
			cfg1.Size = []int{128, 256, 512, 4096}[r.T.Int(sim.LSize, 4)]
			poolable = true
		}
	}
	h1 := drawHistory(r, cfg1, 8)
	// An unflushed partial message is left behind half of the time.
	if len(h1) > 0 && h1[len(h1)-1].Kind == WOpFlush && r.T.Bool(sim.LHist) {
		h1 = h1[:len(h1)-1]
	}
	seed1 := r.T.U32(sim.LPaySeed)
	p1 := NewPipe(r, nil)
	failed := false
	{
		if r.T.Chance(sim.LFault, 1, 3) {
			p1.WFailAt = r.T.Int(sim.LFaultAt, 4)
			p1.WFailN = r.T.Int(sim.LFaultAt, 3)
		}
	}
	wr1 := &WRun{Cfg: cfg1, Ops: h1, Pipe: p1}
	wr1.W = NewW(cfg1, p1)
	applyOptions(wr1.W, cfg1)
	ExecHistory(r, wr1, seed1, nil)
	failed = p1.WriteFailed()
	if failed {
		r.Probe("reset_after_failed_write")
	}
	if wr1.W.Buffered() > 0 {
		r.Probe("reset_with_unflushed_data")
	}
	if len(wr1.Obs) > 0 && wr1.W.Size() != wr1.Obs[0].Size {
		r.Probe("reset_after_growth")
	}

	// Second life.
	cfg2 := WCfg{Ctor: 3, Client: r.T.Bool(sim.LSide), Op: ref.OpText}
	if r.T.Bool(sim.LOp) {
		cfg2.Op = ref.OpBinary
	}
	if mode == 1 {
		cfg2.Client = cfg1.Client
		cfg2.NoFlush, cfg2.Ext, cfg2.Ext2, cfg2.Extra = cfg1.NoFlush, cfg1.Ext, cfg1.Ext2, cfg1.Extra // kept by ResetOp
	} else {
		cfg2.NoFlush = r.T.Chance(sim.LCfg, 1, 5)
		cfg2.Ext = r.T.Int(sim.LCfg, 3)
		cfg2.Ext2 = []int{0, 0, 1, 2}[r.T.Int(sim.LCfg, 4)]
	}
	p2, p3 := NewPipe(r, nil), NewPipe(r, nil)
	sameDest := mode == 0 && r.T.Chance(sim.LCfg, 1, 3)
	if sameDest {
		// Reset onto the destination of the first life (which works again
		// if it had failed), half of the time with the same state as well.
		p1.Heal()
		p2 = p1
		if r.T.Bool(sim.LCfg) {
			cfg2.Client, cfg2.Extra = cfg1.Client, cfg1.Extra
		}
		r.Probe("reset_to_the_same_destination")
	}
	if !sameDest && mode != 1 && r.T.Chance(sim.LFault, 1, 4) {
		// The destination of the second life fails as well (for the reused
		// and for the fresh writer alike): a writer that has failed before
		// has to notice and remember it like a new one.
		at, n := r.T.Int(sim.LFaultAt, 4), r.T.Int(sim.LFaultAt, 3)
		p2.WFailAt, p2.WFailN = at, n
		p3.WFailAt, p3.WFailN = at, n
		r.Probe("second_life_destination_fails")
	}
	w := wr1.W
	var reused *wsutil.Writer
	switch mode {
	case 0:
		// A buffer too small for the new side's header makes construction
		// panic by documented contract; then Reset may (must) do the same.
		rl := rawLen(r, w)
		pr := panics(func() { w.Reset(p2, cfg2.State(), ws.OpCode(cfg2.Op)) })
		pf := panics(func() { wsutil.NewWriterBuffer(p3, cfg2.State(), ws.OpCode(cfg2.Op), make([]byte, rl)) })
		if pr != pf {
			r.Failf("reset_differs_from_new", "Writer.Reset to state %v on a %d byte buffer: panic=%q, NewWriterBuffer with the same buffer: panic=%q", cfg2.State(), rl, pr, pf)
		}
		if pr != "" {
			r.Probe("reset_buffer_too_small_for_new_side")
			return
		}
		reused = w
		if !extsIntact() {
			r.FailProp("C17", "caller_slice_modified", "Writer.Reset changed the slice of extensions the application had spread into SetExtensions")
		}
		applyOptions(reused, cfg2)
	case 1:
		// ResetOp keeps destination, state, extensions and flush mode.
		w.ResetOp(ws.OpCode(cfg2.Op))
		reused = w
		p2 = p1
		p1.Heal() // the destination works again
	case 2:
		wsutil.PutWriter(w)
		// The next user asks for the same size, or for one of the next class.
		n2 := cfg1.Size
		if poolable {
			n2 = []int{cfg1.Size, cfg1.Size - 1, cfg1.Size + 1, 2 * cfg1.Size, cfg1.Size/2 + 1}[r.T.Int(sim.LSize, 5)]
		}
		reused = wsutil.GetWriter(p2, cfg2.State(), ws.OpCode(cfg2.Op), n2)
		if reused == w {
			r.Probe("pool_returned_same_writer")
		}
		// "It ceils n to the power of two": whatever comes back offers at
		// least the room of a writer built on a buffer of that class.
		class := 128
		for class < n2 {
			class <<= 1
		}
		// (Below the pool's smallest class GetWriter builds a writer on a
		// buffer of exactly n bytes.)
		if floor := wsutil.NewWriterBufferSize(io.Discard, cfg2.State(), ws.OpCode(cfg2.Op), class).Size(); n2 >= 128 && class <= 65536 && reused.Size() < floor {
			r.Failf("reset_differs_from_new", "GetWriter(n=%d) after a PutWriter returned a writer with Size()=%d; a new one for that class (%d) has %d", n2, reused.Size(), class, floor)
		}
		_ = poolable
		if !extsIntact() {
			r.FailProp("C17", "caller_slice_modified", "PutWriter/GetWriter changed the slice of extensions the application had spread into SetExtensions")
		}
		applyOptions(reused, cfg2)
	}
	cfg2.Size = rawLen(r, reused)
	fresh := NewW(cfg2, p3)
	applyOptions(fresh, cfg2)
	if fresh.Size() != reused.Size() {
		r.Failf("reset_differs_from_new", "%s: Size()=%d after reset, a new writer with the same %d byte buffer, state and opcode has Size()=%d", names[mode], reused.Size(), cfg2.Size, fresh.Size())
	}
	cfgH := cfg2
	cfgH.Size = reused.Size()
	h2 := drawHistory(r, cfgH, 8)
	seed2 := r.T.U32(sim.LPaySeed)
	rs := int64(r.T.U32(sim.LMisc))
	r.Note("C18 %s first life %s history %v (dest failed=%v); second life %s history %v", names[mode], cfg1, h1, failed, cfg2, h2)
	r.Res.Nontrivial = true

	base := len(p2.Out)
	rand.Seed(rs)
	wrA := &WRun{Cfg: cfg2, Ops: h2, Pipe: p2, W: reused}
	ExecHistory(r, wrA, seed2, nil)
	if mode == 1 && failed {
		// The quick reset after an I/O error: the writer may go on refusing
		// (nothing more is sent, every call reports an error), or work again -
		// then with the extensions and the flush mode it was given, like a new
		// writer with those options. Not something in between.
		refusing := len(p2.Out) == base
		for _, ob := range wrA.Obs {
			switch ob.Op.Kind {
			case WOpWrite, WOpWriteEmpty, WOpThrough, WOpFlushFrag, WOpFlush:
				if ob.Err == nil {
					refusing = false
				}
			}
		}
		if refusing {
			r.Probe("resetop_after_failed_write_keeps_refusing")
			return
		}
	}
	rand.Seed(rs)
	wrB := &WRun{Cfg: cfg2, Ops: h2, Pipe: p3, W: fresh}
	ExecHistory(r, wrB, seed2, nil)
	ta, tb := transcript(wrA), transcript(wrB)
	if mode == 1 || sameDest {
		// Same destination as the first life: compare what was sent since.
		for i := range wrA.Obs {
			wrA.Obs[i].WireLen -= base
		}
		ta = transcript(wrA)
	}
	diffTranscripts(r, "reset_differs_from_new", names[mode], ta, tb, p2.Out[base:], p3.Out)
}

func panics(f func()) (msg string) {
	defer func() {
		if x := recover(); x != nil {
			msg = fmt.Sprint(x)
		}
	}()
	f()
	return ""
}

func flateCtor(level int) func(io.Writer) wsflate.Compressor {
	return func(w io.Writer) wsflate.Compressor {
		f, _ := flate.NewWriter(w, level)
		return f
	}
}

func flateDtor(rd io.Reader) wsflate.Decompressor { return flate.NewReader(rd) }

// resettableDecomp is a decompressor that offers the optional
// wsflate.ReadResetter interface (compress/flate's reader does not: its Reset
// takes a dictionary), so that wsflate.Reader.Reset takes its reuse path.
type resettableDecomp struct{ io.ReadCloser }

func (d resettableDecomp) Reset(r io.Reader) { d.ReadCloser.(flate.Resetter).Reset(r, nil) }

func flateDtorResettable(rd io.Reader) wsflate.Decompressor {
	return resettableDecomp{flate.NewReader(rd)}
}

// drawDtor picks one of the two decompressor kinds.
func drawDtor(r *eng.Run) func(io.Reader) wsflate.Decompressor {
	if r.T.Bool(sim.LCfg) {
		r.Probe("decompressor_with_read_resetter")
		return flateDtorResettable
	}
	return flateDtor
}

func drawMessage(r *eng.Run) []byte {
	n := []int{0, 1, 5, 100, 1000, 5000, 40000}[r.T.Int(sim.LLen, 7)]
	b := make([]byte, n)
	sim.Fill(b, r.T.U32(sim.LPaySeed), r.T.Int(sim.LPayKind, 4))
	return b
}

// flateHistory applies writes/flushes to a wsflate.Writer and returns the
// transcript.
func flateHistory(w *wsflate.Writer, msg []byte, chunks []int, closeIt bool) []string {
	var out []string
	pos := 0
	for _, c := range chunks {
		if pos+c > len(msg) {
			c = len(msg) - pos
		}
		n, err := w.Write(msg[pos : pos+c])
		out = append(out, fmt.Sprintf("Write(%d)=%d,%s", c, n, errStr(err)))
		pos += c
	}
	n, err := w.Write(msg[pos:])
	out = append(out, fmt.Sprintf("Write(%d)=%d,%s", len(msg)-pos, n, errStr(err)))
	out = append(out, "Flush="+errStr(w.Flush()))
	if closeIt {
		out = append(out, "Close="+errStr(w.Close()))
	}
	out = append(out, "Err="+errStr(w.Err()))
	return out
}

// closeOnlyCompressor hides flate.Writer's Reset: a compressor that can be
// closed but not reset in place (wsflate.Writer then builds a new one).
type closeOnlyCompressor struct{ fw *flate.Writer }

func (c closeOnlyCompressor) Write(p []byte) (int, error) { return c.fw.Write(p) }
func (c closeOnlyCompressor) Flush() error                { return c.fw.Flush() }
func (c closeOnlyCompressor) Close() error                { return c.fw.Close() }

// lazyFlushCompressor skips a Flush when nothing was written since the last.
type lazyFlushCompressor struct {
	fw    *flate.Writer
	dirty bool
}

func (c *lazyFlushCompressor) Write(p []byte) (int, error) {
	c.dirty = c.dirty || len(p) > 0
	return c.fw.Write(p)
}

func (c *lazyFlushCompressor) Flush() error {
	if !c.dirty {
		return nil
	}
	c.dirty = false
	return c.fw.Flush()
}

func c18FlateWriter(r *eng.Run) {
	r.SetEntry("wsflate.Writer.Reset")
	level := r.T.Range(sim.LCfg, -2, 9)
	ctor := flateCtor(level)
	if r.T.Chance(sim.LCfg, 1, 3) {
		ctor = func(w io.Writer) wsflate.Compressor {
			f, _ := flate.NewWriter(w, level)
			return closeOnlyCompressor{f}
		}
		r.Probe("compressor_with_close_but_without_reset")
	}
	if r.T.Chance(sim.LCfg, 1, 6) {
		// A compressor that does nothing on a Flush without data (so an empty
		// message leaves no tail behind: Flush has to report that, in a
		// second life as in a first).
		ctor = func(w io.Writer) wsflate.Compressor {
			f, _ := flate.NewWriter(w, level)
			return &lazyFlushCompressor{fw: f}
		}
		r.Probe("compressor_skipping_empty_flushes")
	}
	m1, m2 := drawMessage(r), drawMessage(r)
	p1 := NewPipe(r, nil)
	if r.T.Chance(sim.LFault, 1, 3) {
		p1.WFailAt = r.T.Int(sim.LFaultAt, 3)
		p1.WFailN = r.T.Int(sim.LFaultAt, 3)
	}
	w := wsflate.NewWriter(p1, ctor)
	mode1 := r.T.Int(sim.LHist, 7)
	if r.T.Chance(sim.LFault, 1, 5) {
		// The very first call of the life is a Write so large and so
		// incompressible that the compressor emits blocks from inside it, into
		// a destination that fails there (compress/flate reports that as
		// (0, err) and stays broken).
		m1 = make([]byte, 70000+r.T.Int(sim.LLen, 200000))
		sim.Fill(m1, r.T.U32(sim.LPaySeed), 1)
		p1.WFailAt, p1.WFailN = r.T.Int(sim.LFaultAt, 2), r.T.Int(sim.LFaultAt, 3)
		mode1 = r.T.Int(sim.LHist, 2)
		r.Probe("first_write_fails_inside_the_compressor")
	}
	switch mode1 {
	case 4: // a life without a single Write call: closed at once
		w.Close()
		r.Probe("first_life_without_a_write")
	case 5: // ... flushed at once
		w.Flush()
		r.Probe("first_life_without_a_write")
	case 6: // ... flushed and closed
		w.Flush()
		w.Close()
		r.Probe("first_life_without_a_write")
	case 0: // complete message
		flateHistory(w, m1, []int{len(m1) / 2}, r.T.Bool(sim.LHist))
	case 1: // unflushed
		w.Write(m1)
	case 2: // closed compressor
		w.Write(m1)
		w.Close()
	case 3: // flushed twice
		w.Write(m1)
		w.Flush()
		w.Flush()
	}
	if w.Err() != nil {
		r.Probe("reset_after_failed_write")
	}
	p2, p3 := NewPipe(r, nil), NewPipe(r, nil)
	w.Reset(p2)
	fresh := wsflate.NewWriter(p3, ctor)
	chunks := []int{r.T.Int(sim.LSeg, len(m2)+1)}
	closeIt := r.T.Bool(sim.LHist)
	r.Note("C18 wsflate.Writer.Reset level=%d first life mode=%d (%d bytes, dest failed=%v), second life %d bytes close=%v", level, mode1, len(m1), p1.WriteFailed(), len(m2), closeIt)
	r.Res.Nontrivial = true
	life2 := func(x *wsflate.Writer) []string { return flateHistory(x, m2, chunks, closeIt) }
	switch r.T.Int(sim.LHist, 5) {
	case 1: // the very first call of the new life is Close
		life2 = func(x *wsflate.Writer) []string {
			return []string{"Close=" + errStr(x.Close()), "Err=" + errStr(x.Err())}
		}
		r.Probe("second_life_starts_with_close")
	case 2: // ... or Flush, then Close
		life2 = func(x *wsflate.Writer) []string {
			return []string{"Flush=" + errStr(x.Flush()), "Close=" + errStr(x.Close()), "Err=" + errStr(x.Err())}
		}
		r.Probe("second_life_starts_with_flush")
	}
	ta := life2(w)
	tb := life2(fresh)
	diffTranscripts(r, "reset_differs_from_new", "wsflate.Writer.Reset", ta, tb, p2.Out, p3.Out)
}

func compressRef(msg []byte, level int) []byte {
	var buf bytes.Buffer
	fw, _ := flate.NewWriter(&buf, level)
	fw.Write(msg)
	fw.Flush()
	b := buf.Bytes()
	return b[:len(b)-4]
}

// compressDict is compressRef with a preset dictionary.
func compressDict(msg, dict []byte) []byte {
	var buf bytes.Buffer
	fw, _ := flate.NewWriterDict(&buf, 6, dict)
	fw.Write(msg)
	fw.Flush()
	b := buf.Bytes()
	return b[:len(b)-4]
}

func readAllTranscript(rd io.Reader, bufSize int) (data []byte, tr []string) {
	buf := make([]byte, bufSize)
	for i := 0; i < 1<<20; i++ {
		n, err := rd.Read(buf)
		data = append(data, buf[:n]...)
		if err != nil {
			tr = append(tr, fmt.Sprintf("end after %d bytes: %s", len(data), errStr(err)))
			return
		}
	}
	tr = append(tr, "no end")
	return
}

func c18FlateReader(r *eng.Run) {
	r.SetEntry("wsflate.Reader.Reset")
	m1, m2 := drawMessage(r), drawMessage(r)
	c1, c2 := compressRef(m1, 6), compressRef(m2, 6)
	// Or both peers agreed on a preset dictionary: the application's
	// decompressor constructor carries it.
	var dict []byte
	if r.T.Chance(sim.LCfg, 1, 4) {
		dict = []byte("the quick brown fox jumps over the lazy dog; websocket frame ")
		m1 = append([]byte("the quick brown fox "), m1...)
		m2 = append([]byte("over the lazy dog; websocket frame "), m2...)
		c1, c2 = compressDict(m1, dict), compressDict(m2, dict)
		r.Probe("decompressor_with_preset_dictionary")
	}
	mode1 := r.T.Int(sim.LHist, 4)
	switch mode1 {
	case 1:
		if len(c1) > 2 {
			c1 = c1[:len(c1)/2] // truncated input
		}
	case 2:
		c1 = append([]byte{0xff, 0xff, 0xff}, c1...) // corrupt input
	}
	// The two lives may differ in whether the source is an io.ByteReader
	// (the library takes another path for those).
	byteReader1, byteReader := r.T.Bool(sim.LCfg), r.T.Bool(sim.LCfg)
	mkk := func(b []byte, br bool) io.Reader {
		if br {
			return bytes.NewReader(b)
		}
		return struct{ io.Reader }{bytes.NewReader(b)}
	}
	mk := func(b []byte) io.Reader { return mkk(b, byteReader) }
	var first io.Reader = mkk(c1, byteReader1)
	if r.T.Chance(sim.LCfg, 1, 5) {
		first = nil // documented: NewReader(nil, ...) then Reset
		mode1 = 4
	}
	dtor := drawDtor(r)
	if dict != nil {
		dtor = func(src io.Reader) wsflate.Decompressor { return flate.NewReaderDict(src, dict) }
	}
	fr := wsflate.NewReader(first, dtor)
	buf := make([]byte, drawBuf(r))
	switch mode1 {
	case 3:
		fr.Read(buf[:minInt(len(buf), 3)]) // stop mid-stream
	case 4:
	default:
		io.Copy(io.Discard, fr)
	}
	if mode1 != 4 && r.T.Bool(sim.LHist) {
		fr.Close()
	}
	fr.Reset(mk(c2))
	fresh := wsflate.NewReader(mk(c2), dtor)
	r.Note("C18 wsflate.Reader.Reset first life mode=%d (%d bytes) second life %d bytes byteReader %v->%v", mode1, len(m1), len(m2), byteReader1, byteReader)
	r.Res.Nontrivial = true
	da, ta := readAllTranscript(fr, len(buf))
	db, tb := readAllTranscript(fresh, len(buf))
	ta = append(ta, "Close="+errStr(fr.Close()), "Err="+errStr(fr.Err()))
	tb = append(tb, "Close="+errStr(fresh.Close()), "Err="+errStr(fresh.Err()))
	diffTranscripts(r, "reset_differs_from_new", "wsflate.Reader.Reset", ta, tb, da, db)
	if !bytes.Equal(db, m2) {
		r.FailProp("C12", "roundtrip_mismatch", "a fresh wsflate.Reader did not recover the %d byte message from reference DEFLATE output", len(m2))
	}
}

func c18Cipher(r *eng.Run) {
	m1, m2 := drawMask(r), drawMask(r)
	d1, d2 := drawMessage(r), drawMessage(r)
	if len(d2) > 5000 {
		d2 = d2[:5000]
	}
	r.Res.Nontrivial = true
	if r.T.Bool(sim.LCfg) {
		r.SetEntry("CipherReader.Reset")
		cr := wsutil.NewCipherReader(bytes.NewReader(d1), m1)
		k := r.T.Int(sim.LLen, len(d1)+1)
		io.ReadFull(cr, make([]byte, k)) // leaves pos = k mod 4 anywhere
		cr.Reset(bytes.NewReader(d2), m2)
		fresh := wsutil.NewCipherReader(bytes.NewReader(d2), m2)
		bs := drawBuf(r)
		da, ta := readAllTranscript(cr, bs)
		db, tb := readAllTranscript(fresh, bs)
		r.Note("C18 CipherReader.Reset after %d bytes", k)
		diffTranscripts(r, "reset_differs_from_new", "CipherReader.Reset", ta, tb, da, db)
		want := make([]byte, len(d2))
		ref.XOR(want, d2, m2, 0)
		if !bytes.Equal(db, want) {
			r.FailProp("C02", "cipher_mismatch", "fresh CipherReader output differs from the RFC XOR")
		}
		return
	}
	r.SetEntry("CipherWriter.Reset")
	var a, b, junk bytes.Buffer
	cw := wsutil.NewCipherWriter(&junk, m1)
	k := r.T.Int(sim.LLen, len(d1)+1)
	cw.Write(d1[:k])
	cw.Reset(&a, m2)
	fresh := wsutil.NewCipherWriter(&b, m2)
	c := r.T.Int(sim.LSeg, len(d2)+1)
	var ta, tb []string
	for _, part := range [][]byte{d2[:c], d2[c:]} {
		keep := append([]byte(nil), part...)
		n, err := cw.Write(part)
		ta = append(ta, fmt.Sprintf("Write(%d)=%d,%s", len(part), n, errStr(err)))
		n, err = fresh.Write(part)
		tb = append(tb, fmt.Sprintf("Write(%d)=%d,%s", len(part), n, errStr(err)))
		if !bytes.Equal(part, keep) {
			r.FailProp("C17", "caller_slice_modified", "CipherWriter.Write modified the caller's slice")
		}
	}
	r.Note("C18 CipherWriter.Reset after %d bytes", k)
	diffTranscripts(r, "reset_differs_from_new", "CipherWriter.Reset", ta, tb, a.Bytes(), b.Bytes())
}

func utf8Transcript(u *wsutil.UTF8Reader, bufSize int, early bool) ([]byte, []string) {
	var tr []string
	if early {
		tr = append(tr, fmt.Sprintf("before any Read: Valid=%v Accepted=%d", u.Valid(), u.Accepted()))
	}
	buf := make([]byte, bufSize)
	var data []byte
	for i := 0; i < 1<<16; i++ {
		n, err := u.Read(buf)
		data = append(data, buf[:n]...)
		tr = append(tr, fmt.Sprintf("Read=%d,%s Valid=%v Accepted=%d", n, errStr(err), u.Valid(), u.Accepted()))
		if err != nil {
			break
		}
	}
	return data, tr
}

func c18UTF8(r *eng.Run) {
	r.SetEntry("UTF8Reader.Reset")
	d1, d2 := drawText(r), drawText(r)
	u := wsutil.NewUTF8Reader(bytes.NewReader(d1))
	k := r.T.Int(sim.LLen, len(d1)+1)
	buf := make([]byte, 1+r.T.Int(sim.LBuf, 8))
	for got := 0; got < k; {
		n, err := u.Read(buf)
		got += n
		if err != nil {
			r.Probe("reset_after_rejected_input")
			break
		}
	}
	if !u.Valid() {
		r.Probe("reset_mid_sequence_or_rejected")
	}
	u.Reset(bytes.NewReader(d2))
	fresh := wsutil.NewUTF8Reader(bytes.NewReader(d2))
	bs := drawBuf(r)
	early := r.T.Bool(sim.LCfg)
	r.Note("C18 UTF8Reader.Reset first life %x (read ~%d), second life %x buf=%d checkBeforeRead=%v", head(d1, 24), k, head(d2, 24), bs, early)
	r.Res.Nontrivial = true
	da, ta := utf8Transcript(u, bs, early)
	db, tb := utf8Transcript(fresh, bs, early)
	diffTranscripts(r, "reset_differs_from_new", "UTF8Reader.Reset", ta, tb, da, db)
}

func drawOffer(r *eng.Run) httphead.Option {
	o := httphead.Option{Name: []byte("permessage-deflate")}
	if r.T.Chance(sim.LCfg, 1, 6) {
		o.Name = []byte("x-other")
	}
	add := func(k, v string) {
		var val []byte
		if v != "" {
			val = []byte(v)
		}
		o.Parameters.Set([]byte(k), val)
	}
	if r.T.Bool(sim.LCfg) {
		add("server_no_context_takeover", "")
	}
	if r.T.Bool(sim.LCfg) {
		add("client_no_context_takeover", "")
	}
	switch r.T.Int(sim.LCfg, 4) {
	case 1:
		add("server_max_window_bits", fmt.Sprint(8+r.T.Int(sim.LCfg, 8)))
	case 2:
		add("server_max_window_bits", "99") // ill-valued
	}
	switch r.T.Int(sim.LCfg, 4) {
	case 1:
		add("client_max_window_bits", "")
	case 2:
		add("client_max_window_bits", fmt.Sprint(8+r.T.Int(sim.LCfg, 8)))
	}
	return o
}

func negTranscript(e *wsflate.Extension, offers []httphead.Option) []string {
	var out []string
	for _, o := range offers {
		acc, err := e.Negotiate(o)
		var buf bytes.Buffer
		httphead.WriteOptions(&buf, []httphead.Option{acc})
		p, ok := e.Accepted()
		out = append(out, fmt.Sprintf("Negotiate -> %q err=%s accepted=%v params=%+v", buf.String(), errStr(err), ok, p))
	}
	return out
}

func c18Extension(r *eng.Run) {
	r.SetEntry("wsflate.Extension.Reset")
	params := wsflate.Parameters{
		ServerNoContextTakeover: r.T.Bool(sim.LCfg), ClientNoContextTakeover: r.T.Bool(sim.LCfg),
	}
	if r.T.Bool(sim.LCfg) {
		params.ServerMaxWindowBits = wsflate.WindowBits(8 + r.T.Int(sim.LCfg, 8))
	}
	if r.T.Bool(sim.LCfg) {
		params.ClientMaxWindowBits = wsflate.WindowBits(8 + r.T.Int(sim.LCfg, 8))
	}
	var o1, o2 []httphead.Option
	for i := 0; i < 1+r.T.Int(sim.LHist, 3); i++ {
		o1 = append(o1, drawOffer(r))
	}
	for i := 0; i < 1+r.T.Int(sim.LHist, 3); i++ {
		o2 = append(o2, drawOffer(r))
	}
	e := &wsflate.Extension{Parameters: params}
	t1 := negTranscript(e, o1)
	if _, ok := e.Accepted(); ok {
		r.Probe("reset_after_accepted_offer")
	}
	e.Reset()
	if r.T.Chance(sim.LCfg, 1, 3) {
		// The application reconfigures the negotiator between two handshakes
		// (the exported Parameters field): a new one with that configuration
		// is the yardstick.
		params = wsflate.Parameters{ServerNoContextTakeover: !params.ServerNoContextTakeover, ClientNoContextTakeover: r.T.Bool(sim.LCfg)}
		if r.T.Bool(sim.LCfg) {
			params.ServerMaxWindowBits = wsflate.WindowBits(8 + r.T.Int(sim.LCfg, 8))
		}
		e.Parameters = params
		r.Probe("negotiator_reconfigured_after_reset")
	}
	fresh := &wsflate.Extension{Parameters: params}
	r.Note("C18 Extension.Reset params=%+v first life: %v", params, t1)
	r.Res.Nontrivial = true
	pa, oka := e.Accepted()
	pb, okb := fresh.Accepted()
	if pa != pb || oka != okb {
		r.Failf("reset_differs_from_new", "Extension.Accepted() after Reset = (%+v,%v), new = (%+v,%v)", pa, oka, pb, okb)
	}
	diffTranscripts(r, "reset_differs_from_new", "wsflate.Extension.Reset", negTranscript(e, o2), negTranscript(fresh, o2), nil, nil)
}

// c18ReaderNext: a Reader that has delivered or discarded a complete message
// reads the next message exactly as a new Reader would.
func c18ReaderNext(r *eng.Run) {
	r.SetEntry("Reader.consecutive")
	cfg := ReadCfg{App: AppReader, CheckUTF8: r.T.Bool(sim.LCfg), OnInter: r.T.Int(sim.LCfg, 4), OnCont: r.T.Bool(sim.LCfg), ProbeIdle: true}
	cfg.ContErr = cfg.OnCont && r.T.Chance(sim.LCfg, 1, 3)
	cfg.SwapSource = r.T.Bool(sim.LCfg)
	if !cfg.SwapSource && r.T.Chance(sim.LCfg, 1, 3) {
		// The Reader's source is the bufio.Reader the handshake left behind.
		cfg.Bufio = []int{16, 64, 4096}[r.T.Int(sim.LSize, 3)]
		r.Probe("reader_source_is_bufio_reader")
	}
	if r.T.Bool(sim.LSide) {
		cfg.Side = ref.Client
	}
	s := GenStream(r, StreamCfg{Recv: cfg.Side, MaxMsgs: 4, TextValid: true, Budget: 4096})
	seg := DrawSeg(r)
	if r.T.Chance(sim.LCfg, 1, 4) && !cfg.ContErr {
		// The size limit is configuration like any other: it holds for the
		// second and every later message as for the first.
		first, k, maxBefore := true, -1, int64(0)
		for i, f := range s.Frames {
			if !first && int64(len(f.Payload)) > maxBefore && len(f.Payload) > 1 {
				k = i
				break
			}
			if int64(len(f.Payload)) > maxBefore {
				maxBefore = int64(len(f.Payload))
			}
			if !ref.IsControl(f.Op) && f.Fin {
				first = false // a data message is complete
			}
		}
		if k >= 0 {
			lim := maxBefore
			if lim == 0 {
				lim = 1
			}
			cfg.MaxFrameSize = lim + int64(r.T.Int(sim.LSize, len(s.Frames[k].Payload)-int(lim)))
			p := NewPipe(r, s.Wire)
			p.Marks, p.SegMode = MarksOf(s.Frames), seg
			o := RunApp(r, p, cfg)
			r.Note("C18 Reader.consecutive MaxFrameSize=%d, frame %d (%s) of a later message exceeds it; stream %s", cfg.MaxFrameSize, k, frameStr(s.Frames[k]), s.Describe())
			r.Res.Nontrivial = true
			r.Probe("size_limit_first_exceeded_in_a_later_message")
			if o.Err != wsutil.ErrFrameTooLarge {
				r.Failf("reset_differs_from_new", "Reader with MaxFrameSize=%d: frame %d (%s), the first one above the limit, comes after a complete message and ended with %v from %s; a new Reader refuses it with %v",
					cfg.MaxFrameSize, k, frameStr(s.Frames[k]), o.Err, o.ErrAt, wsutil.ErrFrameTooLarge)
			}
			return
		}
	}
	// Reader A reads the whole stream.
	pa := NewPipe(r, s.Wire)
	pa.Marks, pa.SegMode = MarksOf(s.Frames), seg
	oa := RunApp(r, pa, cfg)
	r.Note("C18 Reader.consecutive side=%d seg=%d stream %s", cfg.Side, seg, s.Describe())
	r.Res.Nontrivial = len(s.Items) > 1
	// For each top-level item boundary, a new reader starting there must see
	// the rest exactly as reader A did. (The application decisions of A's
	// earlier units are consumed first so that both make the same decisions.)
	model := Model(s, cfg)
	CheckRecs(r, cfg, oa, model)
	if oa.Err != io.EOF {
		r.FailProp("C04", "valid_stream_error", "valid stream ended with %v", oa.Err)
	}
	if cfg.OnCont {
		// The continuation handler is configuration: the second and every
		// later message meet it like the first.
		CheckConts(r, cfg, oa, s, len(s.Wire))
		n := 0
		for _, f := range s.Frames {
			if f.Op == ref.OpCont {
				n++
			}
		}
		if len(oa.Conts) != n {
			r.Failf("reset_differs_from_new", "Reader over %d messages: OnContinuation was called %d times for %d continuation frames (a new Reader calls it for each)", len(s.Items), len(oa.Conts), n)
		}
	}
	_ = model
}
