package wire

import (
	"io"

	"github.com/gobwas/ws/wsutil"

	"verif/eng"
	"verif/ref"
	"verif/sim"
)

// drawReadCfg draws the application and its configuration.
func drawReadCfg(r *eng.Run, apps []int) ReadCfg {
	cfg := ReadCfg{}
	if r.T.Bool(sim.LSide) {
		cfg.Side = ref.Client
	}
	cfg.App = apps[r.T.Int(sim.LEntry, len(apps))]
	switch cfg.App {
	case AppReader:
		cfg.OnInter = r.T.Int(sim.LCfg, 4)
		cfg.OnCont = r.T.Bool(sim.LCfg)
		cfg.CheckUTF8 = r.T.Bool(sim.LCfg)
		cfg.Extended = r.T.Chance(sim.LCfg, 1, 4)
		cfg.ProbeIdle = r.T.Chance(sim.LCfg, 1, 4)
		if cfg.OnInter == 0 && !cfg.OnCont && !cfg.CheckUTF8 && r.T.Chance(sim.LCfg, 1, 2) {
			cfg.PerFrame, cfg.ProbeIdle = true, false
		}
		if r.T.Chance(sim.LCfg, 1, 5) {
			cfg.Bufio = []int{16, 64, 4096}[r.T.Int(sim.LSize, 3)]
		}
		cfg.CopyDrain = r.T.Chance(sim.LCfg, 1, 6)
		cfg.CopyValue = r.T.Chance(sim.LCfg, 1, 6)
	case AppReadMessage:
		cfg.Variant = r.T.Int(sim.LCfg, 2)
		cfg.SeedMsgs = r.T.Bool(sim.LCfg)
		cfg.CheckUTF8 = true
	case AppReadData:
		cfg.Variant = r.T.Int(sim.LCfg, 4)
		cfg.CheckUTF8 = true
	}
	switch cfg.App {
	case AppReadFrame:
		if r.T.Chance(sim.LCfg, 1, 3) {
			cfg.Bufio = []int{16, 64, 4096}[r.T.Int(sim.LSize, 3)]
		}
	case AppNextReader:
		cfg.Extended = r.T.Chance(sim.LCfg, 1, 4)
		cfg.CopyDrain = r.T.Chance(sim.LCfg, 1, 6)
		if r.T.Chance(sim.LCfg, 1, 5) {
			cfg.Bufio = []int{16, 64, 4096}[r.T.Int(sim.LSize, 3)]
		}
	case AppReadMessage, AppReadData:
		cfg.Extended = cfg.Variant == 0 && r.T.Chance(sim.LCfg, 1, 4)
		if r.T.Chance(sim.LCfg, 1, 5) {
			// (odd sizes: the helper is given a *bufio.ReadWriter)
			cfg.Bufio = []int{16, 17, 64, 65, 4096, 4097}[r.T.Int(sim.LSize, 6)]
		}
	}
	return cfg
}

func maxFrameLen(s *Stream) int64 {
	var m int64
	for _, f := range s.Frames {
		if int64(len(f.Payload)) > m {
			m = int64(len(f.Payload))
		}
	}
	return m
}

// topCall is the name of the top-level API call of an application.
func topCall(cfg ReadCfg) string {
	switch cfg.App {
	case AppReader:
		return "NextFrame"
	case AppNextReader:
		return "NextReader"
	case AppReadMessage:
		return "ReadMessage"
	case AppReadData:
		return "ReadData"
	}
	return "ReadFrame"
}

// C04: the message reader reassembles every valid frame stream exactly under
// any chunking.
func C04(r *eng.Run) {
	if r.T.Chance(sim.LEntry, 1, 2500) {
		c04Huge(r)
		return
	}
	cfg := drawReadCfg(r, []int{AppReader, AppReader, AppReader, AppNextReader, AppNextReader, AppReadMessage, AppReadMessage, AppReadData, AppReadData, AppReadData, AppReadFrame})
	r.SetEntry(cfg.Name())
	s := GenStream(r, StreamCfg{Recv: cfg.Side, MaxMsgs: 6, TextValid: true, Rsv23: cfg.Extended})
	if cfg.Extended {
		r.Probe("extended_state_rsv23_frames")
	}
	if cfg.App == AppReader {
		switch r.T.Int(sim.LCfg, 3) {
		case 1:
			cfg.MaxFrameSize = maxFrameLen(s) // exactly at the limit: must be accepted
		case 2:
			cfg.MaxFrameSize = maxFrameLen(s) + 1 + int64(r.T.Int(sim.LCfg, 1000))
		}
		if cfg.MaxFrameSize > 0 {
			r.Probe("max_frame_size_at_or_above_largest")
		}
	}
	p := NewPipe(r, s.Wire)
	p.Marks = MarksOf(s.Frames)
	p.SegMode = DrawSeg(r)
	p.EOFWithData = r.T.Chance(sim.LFault, 1, 8)
	p.ZeroReads = r.T.Chance(sim.LFault, 1, 8)
	cfg.ZeroBuf = (cfg.App == AppReader || cfg.App == AppNextReader) && r.T.Chance(sim.LFault, 1, 8)
	cfg.SkipEmpty = cfg.App == AppReader && r.T.Chance(sim.LCfg, 1, 4) // empty unfragmented messages are not read at all
	cfg.SkipCheck = cfg.App == AppReader && r.T.Chance(sim.LCfg, 1, 6) // a valid stream reads the same without the header checks
	if (cfg.App == AppReader || cfg.App == AppNextReader) && cfg.Bufio == 0 && !cfg.NoDiscard && r.T.Chance(sim.LFault, 1, 6) {
		// One temporary read error inside the payload of a data frame; the
		// application reads every unit to its end and retries.
		cfg.Retry, cfg.NoDiscard, cfg.PerFrame = true, true, false
		var inPay bool
		p.Transient, inPay = TransientIn(r, s.Frames)
		// ... and now and then the failing Read has taken some bytes already.
		p.TransientData = inPay && r.T.Chance(sim.LFault, 1, 3)
	}
	r.Note("C04 %s side=%d seg=%d eofWithData=%v stream: %s", cfg.Name(), cfg.Side, p.SegMode, p.EOFWithData, s.Describe())

	o := RunApp(r, p, cfg)

	want := Model(s, cfg)
	CheckRecs(r, cfg, o, want)
	if len(o.Recs) > len(want) {
		r.Failf("extra_delivery", "%s: delivered %d units, stream has %d", cfg.Name(), len(o.Recs), len(want))
	}
	if o.Err != io.EOF || o.ErrAt != topCall(cfg) {
		r.Failf("valid_stream_error", "%s: valid stream ended with error %v from %s (expected io.EOF from %s after the last frame)",
			cfg.Name(), o.Err, o.ErrAt, topCall(cfg))
	}
	if o.Open != nil {
		r.Failf("valid_stream_error", "%s: a unit was left open at the end of a valid stream", cfg.Name())
	}
	if p.Consumed() != len(s.Wire) {
		r.Failf("bytes_left", "%s: %d of %d stream bytes consumed at clean end", cfg.Name(), p.Consumed(), len(s.Wire))
	}
	if cfg.App == AppReader && cfg.OnCont {
		CheckConts(r, cfg, o, s, len(s.Wire))
		n := 0
		for _, f := range s.Frames {
			if f.Op == ref.OpCont {
				n++
			}
		}
		if len(o.Conts) != n {
			r.Failf("missing_continuation_callback", "%s: OnContinuation called %d times for %d continuation frames", cfg.Name(), len(o.Conts), n)
		}
	}
	if cfg.App == AppReadData {
		CheckPongs(r, cfg, p, ExpectedReplies(s, len(s.Wire)))
	} else if len(p.Out) != 0 {
		r.Failf("unexpected_write", "%s wrote %d bytes to the transport", cfg.Name(), len(p.Out))
	}
	_ = wsutil.ErrInvalidUTF8
}
