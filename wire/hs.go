package wire

import (
	"bufio"
	"bytes"
	"context"
	"errors"
	"fmt"
	"io"
	"math/rand"
	"net"
	"net/http"
	"net/url"
	"strings"
	"time"

	"github.com/gobwas/httphead"
	"github.com/gobwas/ws"
	"github.com/gobwas/ws/wsflate"
	"github.com/gobwas/ws/wsutil"

	"verif/eng"
	"verif/multi"
	"verif/sim"
)

// ---------------------------------------------------------------------------
// Handshake configurations

type extSpec struct {
	Name   string
	Params [][2]string
}

func (e extSpec) Option() httphead.Option {
	o := httphead.Option{Name: []byte(e.Name)}
	for _, kv := range e.Params {
		var v []byte
		if kv[1] != "" {
			v = []byte(kv[1])
		}
		o.Parameters.Set([]byte(kv[0]), v)
	}
	return o
}

func (e extSpec) String() string {
	s := e.Name
	for _, kv := range e.Params {
		s += ";" + kv[0]
		if kv[1] != "" {
			s += "=" + kv[1]
		}
	}
	return s
}

// headerString renders the extension as it goes into a header line written
// by hand: "; " between parameters, values that are not tokens quoted.
func (e extSpec) headerString() string {
	s := e.Name
	for _, kv := range e.Params {
		s += "; " + kv[0]
		if kv[1] != "" {
			if tokenOnly(kv[1]) == kv[1] {
				s += "=" + kv[1]
			} else {
				s += "=\"" + kv[1] + "\""
			}
		}
	}
	return s
}

// optString renders an httphead.Option in the same canonical form.
func optString(o httphead.Option) string {
	s := string(o.Name)
	o.Parameters.ForEach(func(k, v []byte) bool {
		s += ";" + string(k)
		if len(v) != 0 {
			s += "=" + string(v)
		}
		return true
	})
	return s
}

func optsString(os []httphead.Option) string {
	var parts []string
	for _, o := range os {
		parts = append(parts, optString(o))
	}
	return strings.Join(parts, ", ")
}

type hsClient struct {
	HdrForm    int  // how the extra header text is handed over: 0 HandshakeHeaderString, 1 HandshakeHeaderBytes, 2 HandshakeHeaderFunc
	OnHeaderCb bool // Dialer.OnHeader is set and records every header it is given
	HTTPHeader bool // the extra headers are an http.Header of eight names given through ws.HandshakeHeaderHTTP
	Protocols  []string
	Exts       []extSpec
	Header     string
	Host       string
	RBuf, WBuf int
	URL        string
	Debug      int  // 0 plain Dialer.Upgrade, 1 DebugDialer (both callbacks), 2 OnRequest only, 3 OnResponse only, 4 plain Dialer.Dial
	Wrap       bool // Dial paths: the application installs its own WrapConn
	Edited     bool // Upgrade path: the same Dialer value made an earlier handshake with another first offer in the same slice element
	Reuse      bool // DebugDialer: the same value has already been used for an earlier Dial
	Timeout    bool // Dial paths: Dialer.Timeout is set (an hour: it never fires, but Dial arms and restores deadlines around the handshake)
	StatusCb   bool // Dialer.OnStatusError is set (and reads the body it is given)
	EOFData    bool // the transport hands over the last bytes it has together with io.EOF
	LiveCtx    bool // Dial paths: the caller's context is a cancellable one that stays alive throughout
	TLS        bool // wss:// through Dialer.TLSClient: a reversible byte scrambler stands in for the secure layer (Dial paths only)
	Odd        bool // the extra header has a name net/http refuses (ws.Upgrader hands it to OnHeader like any other)
}

type hsServer struct {
	HdrForm      int  // as hsClient.HdrForm, for Upgrader.Header
	HTTPHeader   bool // Upgrader only: extra response headers as an http.Header of eight names through ws.HandshakeHeaderHTTP
	Kind         int  // 0 Upgrader 1 HTTPUpgrader 2 DebugUpgrader
	Proto        int  // 0 nil 1 accept none 2 accept ProtoVal 3 accept all
	ProtoVal     string
	ProtoCustom  bool
	Ext          int // 0 nil 1 Negotiate echo 2 Negotiate wsflate.Extension 3 Negotiate rejects 4 deprecated Extension 5 Negotiate fixed params
	ExtAccept    []string
	FixedParams  [][2]string
	Header       string
	Reject       int // 0 none 1 OnHost 2 OnHeader 3 OnRequest 4 OnBeforeUpgrade
	RejectStatus int
	RejectBare   bool // the rejection carries a status only: no reason, no header
	RejectClose  bool // the rejection's header says "Connection: close" (the body still belongs to the response)
	RejectBig    bool // the rejection's reason (the response body) is longer than 64 KiB
	BeforeHeader string
	RBuf, WBuf   int
	Trailing     []byte
	FlateParams  wsflate.Parameters
	// EditResult (HTTPUpgrader): the application edits the Handshake it got
	// back in place (it is its own now); the *http.Request it still holds
	// must not change with it.
	EditResult bool
}

// The last entry is kept out of the draw: a subprotocol that is not an RFC
// token is a caller error the library does not validate; peers then may
// disagree, which no property promises otherwise (DESIGN §8).
var protoPool = []string{"chat", "Chat", "CHAT", "superchat", "v1.proto", "x", "X", "graphql-ws", strings.Repeat("long-subprotocol-", 6) + "end", "bad token"}
var extNames = []string{"permessage-deflate", "x-webkit-deflate-frame", "foo", "bar-ext"}
var bufSizesHS = []int{0, 16, 17, 32, 64, 128, 4096}

// drawBufHS draws an I/O buffer size; now and then one that holds any header
// line whole.
func drawBufHS(r *eng.Run) int {
	k := r.T.Int(sim.LSize, len(bufSizesHS)+1)
	if k == len(bufSizesHS) {
		if r.T.Chance(sim.LSize, 1, 3) {
			return 131072
		}
		return 4096
	}
	return bufSizesHS[k]
}

func drawParams(r *eng.Run, flate bool) [][2]string {
	var ps [][2]string
	n := r.T.Int(sim.LCfg, 4)
	if r.T.Chance(sim.LCfg, 1, 12) {
		n = 9 + r.T.Int(sim.LCfg, 3) // more than httphead's inline array of 8
	}
	if flate {
		cand := [][2]string{{"client_max_window_bits", ""}, {"server_no_context_takeover", ""}, {"client_no_context_takeover", ""},
			{"server_max_window_bits", "10"}, {"client_max_window_bits", "12"}, {"server_max_window_bits", "15"}}
		if r.T.Chance(sim.LCfg, 1, 8) {
			// An offer the negotiator refuses (a window out of range, a value
			// where none belongs, a parameter nobody knows).
			cand = append(cand, [2]string{"client_max_window_bits", "77"}, [2]string{"server_max_window_bits", "7"}, [2]string{"server_no_context_takeover", "1"}, [2]string{"x-unknown-parameter", ""})
			r.Probe("deflate_offer_with_a_parameter_the_negotiator_refuses")
		}
		seen := map[string]bool{}
		for i := 0; i < n && i < 4; i++ {
			c := cand[r.T.Int(sim.LCfg, len(cand))]
			if !seen[c[0]] {
				seen[c[0]] = true
				ps = append(ps, c)
			}
		}
		return ps
	}
	for i := 0; i < n; i++ {
		k := fmt.Sprintf("p%d", i)
		// Tokens, and values that are legal only as a quoted string.
		v := []string{"", "1", "abc", "15", "x-y_z", "a/b", "sha256:abcd", "two words", "a,b", "k=v;w", "(x)[y]@z"}[r.T.Int(sim.LCfg, 11)]
		ps = append(ps, [2]string{k, v})
	}
	return ps
}

func drawHS(r *eng.Run) (hsClient, hsServer) {
	var c hsClient
	var s hsServer
	for i, n := 0, r.T.Int(sim.LCfg, 4); i < n; i++ {
		// "bad token" (last) is rare.
		k := r.T.Int(sim.LCfg, len(protoPool)-1)
		c.Protocols = append(c.Protocols, protoPool[k])
	}
	for i, n := 0, r.T.Int(sim.LCfg, 4); i < n; i++ {
		name := extNames[r.T.Int(sim.LCfg, len(extNames))]
		c.Exts = append(c.Exts, extSpec{Name: name, Params: drawParams(r, name == "permessage-deflate")})
	}
	switch r.T.Int(sim.LCfg, 6) {
	case 5:
		c.Header, c.Odd = "X-First: 1\r\nX-Trace@Id: 7\r\nX-Last: 3\r\n", true
	case 1:
		c.Header = []string{"X-Custom: value\r\n", "X-Custom: value\r\n", "X-Build:42\r\n", "X-Tab:\t1\r\n", "X-Empty:\r\n"}[r.T.Int(sim.LCfg, 5)]
	case 2:
		n := 5 + r.T.Int(sim.LLen, 1200)
		if r.T.Chance(sim.LLen, 1, 24) {
			// A line of 16..80 KB: longer than any configured buffer but one.
			n = 3300 + r.T.Int(sim.LLen, 13000)
			r.Probe("request_line_of_tens_of_kilobytes")
		}
		c.Header = "Cookie: " + strings.Repeat("k=v; ", n) + "\r\nX-Other: 1\r\n"
	case 3:
		c.Header = "X-Long: " + strings.Repeat("z", []int{10, 15, 16, 17, 31, 32, 33, 63, 64, 65, 4090, 4096, 4100}[r.T.Int(sim.LLen, 13)]) + "\r\n"
	}
	if r.T.Chance(sim.LCfg, 1, 4) {
		c.Host = "override.example:8080"
	}
	c.HdrForm = []int{0, 0, 1, 2}[r.T.Int(sim.LCfg, 4)]
	c.OnHeaderCb = r.T.Chance(sim.LCfg, 1, 4)
	if r.T.Chance(sim.LCfg, 1, 8) {
		// The extra headers are given as an http.Header (eight names)
		// through the HandshakeHeaderHTTP adapter.
		c.Header, c.Odd, c.HTTPHeader = "", false, true
		r.Probe("extra_headers_through_the_http_header_adapter")
	}
	c.RBuf = drawBufHS(r)
	c.WBuf = drawBufHS(r)
	c.StatusCb = r.T.Chance(sim.LCfg, 1, 3)
	c.URL = []string{"ws://example.com/", "ws://example.com:8080/chat?x=1&y=2", "ws://[::1]:9000/p/a/t/h", "ws://h/" + strings.Repeat("seg/", 20)}[r.T.Int(sim.LCfg, 4)]
	if r.T.Chance(sim.LEntry, 1, 3) {
		c.Debug = 1 + r.T.Int(sim.LEntry, 4)
		c.Wrap = r.T.Bool(sim.LCfg)
		c.Reuse = r.T.Bool(sim.LCfg)
	} else {
		c.Edited = r.T.Chance(sim.LCfg, 1, 3)
	}

	s.Kind = []int{0, 0, 0, 1, 1, 2}[r.T.Int(sim.LEntry, 6)]
	s.Proto = r.T.Int(sim.LCfg, 4)
	s.ProtoVal = protoPool[r.T.Int(sim.LCfg, len(protoPool)-1)]
	if len(c.Protocols) > 0 && r.T.Bool(sim.LCfg) {
		s.ProtoVal = c.Protocols[r.T.Int(sim.LCfg, len(c.Protocols))]
	}
	s.ProtoCustom = s.Kind != 1 && r.T.Chance(sim.LCfg, 1, 4)
	s.Ext = r.T.Int(sim.LCfg, 6)
	for _, n := range extNames {
		if r.T.Bool(sim.LCfg) {
			s.ExtAccept = append(s.ExtAccept, n)
		}
	}
	s.FixedParams = [][2]string{{"fixed", "1"}, {"flag", ""}}
	s.FlateParams = wsflate.Parameters{ServerNoContextTakeover: r.T.Bool(sim.LCfg), ClientNoContextTakeover: r.T.Bool(sim.LCfg)}
	if r.T.Bool(sim.LCfg) {
		s.FlateParams.ServerMaxWindowBits = wsflate.WindowBits(9 + r.T.Int(sim.LCfg, 7))
	}
	switch r.T.Int(sim.LCfg, 5) {
	case 1:
		s.Header = "X-Server: sim\r\n"
	case 2:
		n := 10 + r.T.Int(sim.LLen, 600)
		if r.T.Chance(sim.LLen, 1, 16) {
			n = 16000 + r.T.Int(sim.LLen, 60000)
			r.Probe("response_line_of_tens_of_kilobytes")
		}
		s.Header = "Set-Cookie: " + strings.Repeat("s", n) + "\r\n"
	case 4:
		// Legal field-line forms an application may write by hand: no space
		// behind the colon, a tab, an empty value, spaces around the value.
		s.Header = []string{"X-Build:42\r\n", "X-Tab:\t1\r\n", "X-Empty:\r\n", "X-Pad:   padded   \r\n", "X-A:1\r\nX-B: 2\r\n"}[r.T.Int(sim.LCfg, 5)]
		r.Probe("hand_written_header_line_forms")
	}
	if s.Kind != 1 && r.T.Chance(sim.LFault, 1, 6) {
		s.Reject = 1 + r.T.Int(sim.LFault, 4)
		s.RejectStatus = []int{0, 400, 401, 403, 500, 503}[r.T.Int(sim.LFault, 6)]
		s.RejectBare = s.RejectStatus != 0 && r.T.Chance(sim.LFault, 1, 3)
		s.RejectClose = s.RejectStatus != 0 && !s.RejectBare && r.T.Chance(sim.LFault, 1, 3)
		s.RejectBig = s.RejectStatus != 0 && !s.RejectBare && r.T.Chance(sim.LFault, 1, 6)
	}
	s.HdrForm = []int{0, 0, 1, 2}[r.T.Int(sim.LCfg, 4)]
	if s.Kind != 1 && r.T.Chance(sim.LCfg, 1, 8) {
		s.Header, s.HTTPHeader = "", true
		r.Probe("extra_headers_through_the_http_header_adapter")
	}
	if s.Kind != 1 && s.Reject == 0 && r.T.Chance(sim.LCfg, 1, 4) {
		s.BeforeHeader = "X-Before: upgrade\r\n"
	}
	s.RBuf = drawBufHS(r)
	s.WBuf = drawBufHS(r)
	if r.T.Chance(sim.LCfg, 1, 3) {
		// Frames right behind the 101.
		n := 1 + r.T.Int(sim.LLen, 300)
		f := ws.NewBinaryFrame(patBytes(77, 0, n))
		s.Trailing, _ = ws.CompileFrame(f)
		if r.T.Bool(sim.LCfg) {
			s.Trailing = append(s.Trailing, ws.CompiledPing...)
		}
	}
	return c, s
}

func (c hsClient) String() string {
	var xs []string
	for _, e := range c.Exts {
		xs = append(xs, e.String())
	}
	return fmt.Sprintf("client{protocols=%q exts=%q hdr=%dB host=%q rbuf=%d wbuf=%d url=%s debug=%d wrap=%v}", c.Protocols, xs, len(c.Header), c.Host, c.RBuf, c.WBuf, c.URL, c.Debug, c.Wrap)
}

func (s hsServer) String() string {
	return fmt.Sprintf("server{kind=%d proto=%d(%q,custom=%v) ext=%d accept=%v hdr=%dB reject=%d/%d before=%dB rbuf=%d wbuf=%d trailing=%dB}",
		s.Kind, s.Proto, s.ProtoVal, s.ProtoCustom, s.Ext, s.ExtAccept, len(s.Header), s.Reject, s.RejectStatus, len(s.BeforeHeader), s.RBuf, s.WBuf, len(s.Trailing))
}

// ---------------------------------------------------------------------------
// Running the peers

type hsOutcome struct {
	Err           error
	Protocol      string
	Exts          []httphead.Option
	Written       []byte // everything the peer wrote to the transport
	Head          []byte // handshake part of Written (without trailing frames)
	Rest          []byte // client: bytes readable after the handshake (buffer then conn)
	OnReq         []byte
	OnResp        []byte
	StatusSeen    []byte // what OnStatusError was given and could read
	OnReqRaw      []byte // the very slices the callbacks were given (an application that keeps its reports)
	OnRespRaw     []byte
	HasOnReq      bool
	HasOnResp     bool
	Consumed      int
	Pipe          *Pipe
	Panic         string
	RestErr       error
	Wrapped       *recConn // the application's wrapper, if any
	ConnIsWrapper bool
}

// recConn is an application-level WrapConn result that records what passes
// through it.
// xorConn stands in for a secure layer: what travels below it is every byte
// XOR 0x5a. Whoever looks at the bytes below it sees no HTTP.
type xorConn struct{ net.Conn }

func scramble(b []byte) []byte {
	out := make([]byte, len(b))
	for i, x := range b {
		out[i] = x ^ 0x5a
	}
	return out
}

func (c *xorConn) Read(p []byte) (int, error) {
	n, err := c.Conn.Read(p)
	for i := 0; i < n; i++ {
		p[i] ^= 0x5a
	}
	return n, err
}

func (c *xorConn) Write(p []byte) (int, error) { return c.Conn.Write(scramble(p)) }

// wire is what b looks like on the client's transport.
func (c hsClient) wire(b []byte) []byte {
	if c.TLS && c.Debug != 0 { // Upgrade on a given conn (Debug 0) involves no TLSClient
		return scramble(b)
	}
	return b
}

type recConn struct {
	net.Conn
	read, written []byte
}

func (c *recConn) Read(p []byte) (int, error) {
	n, err := c.Conn.Read(p)
	c.read = append(c.read, p[:n]...)
	return n, err
}

func (c *recConn) Write(p []byte) (int, error) {
	n, err := c.Conn.Write(p)
	c.written = append(c.written, p[:n]...)
	return n, err
}

func (o *hsOutcome) ok() bool { return o.Err == nil }

func (o *hsOutcome) summary() string {
	if o.Err != nil {
		return "fail(" + o.Err.Error() + ")"
	}
	return fmt.Sprintf("ok(protocol=%q exts=%q)", o.Protocol, optsString(o.Exts))
}

// poisoned reports whether s contains what the simulated pool writes over a
// buffer when it is put back.
func poisoned(s string) bool { return strings.Contains(s, "\xa5\xa5\xa5") }

// checkNoPoison: nothing a handshake hands back - the error text included,
// applications log it - may be a view of a pooled buffer (by the time the call
// has returned the buffer is back in the pool and overwritten).
func checkNoPoison(r *eng.Run, who string, o *hsOutcome) {
	if o.Err != nil {
		if msg := o.Err.Error(); poisoned(msg) {
			r.FailProp("C17", "result_aliases_pooled_memory", "%s: the text of the returned error reads %q: it is built from a pooled buffer that has been put back", who, msg)
		}
	}
}

func inSet(set []string, v string) bool {
	for _, s := range set {
		if s == v {
			return true
		}
	}
	return false
}

func (s hsServer) rejectErr() error {
	if s.RejectStatus == 0 {
		return errors.New("sim: rejected by callback")
	}
	if s.RejectBare {
		return ws.RejectConnectionError(ws.RejectionStatus(s.RejectStatus))
	}
	hdr := "X-Rejected: yes\r\n"
	if s.RejectClose {
		hdr += "Connection: close\r\n"
	}
	reason := "sim: rejected with status"
	if s.RejectBig {
		reason = strings.Repeat("sim: rejected, and here is why. ", 2200) // 70400 bytes
	}
	return ws.RejectConnectionError(ws.RejectionStatus(s.RejectStatus), ws.RejectionReason(reason),
		ws.RejectionHeader(ws.HandshakeHeaderString(hdr)))
}

func (s hsServer) negotiate(flate *wsflate.Extension) func(httphead.Option) (httphead.Option, error) {
	switch s.Ext {
	case 1:
		return func(o httphead.Option) (httphead.Option, error) {
			if inSet(s.ExtAccept, string(o.Name)) {
				return o.Clone(), nil // the argument is only valid until we return
			}
			return httphead.Option{}, nil
		}
	case 2:
		return flate.Negotiate
	case 3:
		return func(o httphead.Option) (httphead.Option, error) {
			if inSet(s.ExtAccept, string(o.Name)) {
				return httphead.Option{}, s.rejectErrOr(403)
			}
			return httphead.Option{}, nil
		}
	case 5:
		return func(o httphead.Option) (httphead.Option, error) {
			if inSet(s.ExtAccept, string(o.Name)) {
				return extSpec{Name: string(o.Name), Params: s.FixedParams}.Option(), nil
			}
			return httphead.Option{}, nil
		}
	}
	return nil
}

func (s hsServer) rejectErrOr(status int) error {
	return ws.RejectConnectionError(ws.RejectionStatus(status), ws.RejectionReason("sim: extension refused"))
}

func (s hsServer) upgrader() ws.Upgrader {
	u := ws.Upgrader{ReadBufferSize: s.RBuf, WriteBufferSize: s.WBuf}
	sel := func(p string) bool {
		switch s.Proto {
		case 2:
			return p == s.ProtoVal
		case 3:
			return true
		}
		return false
	}
	if s.Proto != 0 {
		if s.ProtoCustom {
			u.ProtocolCustom = func(h []byte) (string, bool) {
				var ret string
				ok := httphead.ScanTokens(h, func(v []byte) bool {
					if sel(string(v)) {
						ret = string(v)
						return false
					}
					return true
				})
				return ret, ok
			}
		} else {
			u.Protocol = func(p []byte) bool { return sel(string(p)) }
		}
	}
	flate := &wsflate.Extension{Parameters: s.FlateParams}
	if s.Ext == 4 {
		u.Extension = func(o httphead.Option) bool { return inSet(s.ExtAccept, string(o.Name)) }
	} else {
		u.Negotiate = s.negotiate(flate)
	}
	if s.Header != "" {
		u.Header = headerIn(s.HdrForm, s.Header)
	}
	if s.HTTPHeader && s.Header == "" {
		u.Header = ws.HandshakeHeaderHTTP(manyHeaders("X-Server-"))
	}
	switch s.Reject {
	case 1:
		u.OnHost = func([]byte) error { return s.rejectErr() }
	case 2:
		u.OnHeader = func(k, v []byte) error { return s.rejectErr() }
	case 3:
		u.OnRequest = func([]byte) error { return s.rejectErr() }
	case 4:
		u.OnBeforeUpgrade = func() (ws.HandshakeHeader, error) { return nil, s.rejectErr() }
	}
	if s.BeforeHeader != "" {
		u.OnBeforeUpgrade = func() (ws.HandshakeHeader, error) { return ws.HandshakeHeaderString(s.BeforeHeader), nil }
	}
	return u
}

type stubRW struct {
	conn net.Conn
	br   *bufio.Reader
	hdr  http.Header
}

func (w *stubRW) Header() http.Header         { return w.hdr }
func (w *stubRW) Write(p []byte) (int, error) { return w.conn.Write(p) }
func (w *stubRW) WriteHeader(int)             {}
func (w *stubRW) Hijack() (net.Conn, *bufio.ReadWriter, error) {
	return w.conn, bufio.NewReadWriter(w.br, bufio.NewWriter(w.conn)), nil
}

// runServer runs the configured upgrader on the pipe.
func runServer(r *eng.Run, s hsServer, p *Pipe) *hsOutcome {
	o := runServerConn(r, s, p, func() []byte { return p.Out }, func() bool { return !p.WriteFailed() })
	o.Pipe = p
	o.Consumed = p.Consumed()
	checkNoPoison(r, "upgrader", o)
	return o
}

// runServerConn runs the configured upgrader on any connection; sent returns
// what has been written to it so far.
func runServerConn(r *eng.Run, s hsServer, p net.Conn, sent func() []byte, writable func() bool) *hsOutcome {
	o := &hsOutcome{}
	var hs ws.Handshake
	switch s.Kind {
	case 0:
		hs, o.Err = s.upgrader().Upgrade(p)
	case 2:
		d := wsutil.DebugUpgrader{Upgrader: s.upgrader()}
		d.OnRequest = func(b []byte) { o.OnReq, o.HasOnReq, o.OnReqRaw = append([]byte(nil), b...), true, b }
		d.OnResponse = func(b []byte) { o.OnResp, o.HasOnResp, o.OnRespRaw = append([]byte(nil), b...), true, b }
		hs, o.Err = d.Upgrade(p)
	case 1:
		br := bufio.NewReader(p)
		req, err := http.ReadRequest(br)
		if err != nil {
			o.Err = fmt.Errorf("net/http stub: %w", err)
			p.Write([]byte("HTTP/1.1 400 Bad Request\r\nContent-Length: 0\r\n\r\n"))
			break
		}
		u := ws.HTTPUpgrader{}
		if s.WBuf%2 == 0 && len(s.Header)%2 == 0 {
			// Half of the configurations bound the response write in time
			// (nothing in the simulation ever takes that long).
			u.Timeout = time.Hour
			r.Probe("http_upgrader_with_timeout")
		}
		if s.Proto != 0 {
			u.Protocol = func(p string) bool {
				switch s.Proto {
				case 2:
					return p == s.ProtoVal
				case 3:
					return true
				}
				return false
			}
		}
		flate := &wsflate.Extension{Parameters: s.FlateParams}
		if s.Ext == 4 {
			u.Extension = func(o httphead.Option) bool { return inSet(s.ExtAccept, string(o.Name)) }
		} else {
			u.Negotiate = s.negotiate(flate)
		}
		if s.Header != "" {
			// (HTTPUpgrader takes an http.Header: the lines' names and values.)
			u.Header = http.Header{}
			for _, l := range strings.Split(strings.TrimSuffix(s.Header, "\r\n"), "\r\n") {
				if i := strings.IndexByte(l, ':'); i > 0 {
					u.Header.Add(l[:i], strings.Trim(l[i+1:], " \t"))
				}
			}
		}
		var reqKeep []string
		if s.EditResult {
			for _, k := range []string{"Sec-Websocket-Extensions", "Sec-Websocket-Protocol"} {
				for _, v := range req.Header[k] {
					reqKeep = append(reqKeep, k+": "+strings.Clone(v))
				}
			}
		}
		_, _, hs, o.Err = u.Upgrade(req, &stubRW{conn: p, br: br, hdr: http.Header{}})
		if s.EditResult && o.Err == nil {
			// What the rest of the run compares is a copy taken now.
			live := hs.Extensions
			hs.Extensions = nil
			for _, x := range live {
				hs.Extensions = append(hs.Extensions, x.Copy(make([]byte, x.Size())))
			}
			// The application edits what it was given, looks at the request
			// it still holds, and puts the bytes back: what else those bytes
			// may be shared with (wsflate.Extension.Negotiate answers with
			// the package's own ExtensionNameBytes as the name) is not this
			// clause's business (DESIGN §8).
			flip := func() {
				for _, x := range live {
					for i := range x.Name {
						x.Name[i] ^= 0x20
					}
					x.Parameters.ForEach(func(k, v []byte) bool {
						for i := range k {
							k[i] ^= 0x20
						}
						for i := range v {
							v[i] ^= 0x20
						}
						return true
					})
				}
			}
			flip()
			var now []string
			for _, k := range []string{"Sec-Websocket-Extensions", "Sec-Websocket-Protocol"} {
				for _, v := range req.Header[k] {
					now = append(now, k+": "+v)
				}
			}
			flip()
			if !sameStrings(now, reqKeep) {
				r.FailProp("C17", "result_aliases_request", "HTTPUpgrader: editing the returned Handshake.Extensions in place changed the request's own header values: now %q, were %q (the result is a view of the request's memory, not a copy)", now, reqKeep)
			}
			r.Probe("http_upgrader_result_edited_in_place")
		}
	}
	o.Protocol, o.Exts = hs.Protocol, hs.Extensions
	o.Head = append([]byte(nil), sent()...)
	if o.Err == nil && len(s.Trailing) > 0 && writable() {
		p.Write(s.Trailing)
	}
	o.Written = sent()
	return o
}

// lastStatusSeen is what the most recent OnStatusError callback was given
// (status, reason, and everything it could read from the response reader).
var lastStatusSeen []byte

func (c hsClient) dialer() ws.Dialer {
	d := ws.Dialer{ReadBufferSize: c.RBuf, WriteBufferSize: c.WBuf, Protocols: c.Protocols, Host: c.Host}
	for _, e := range c.Exts {
		d.Extensions = append(d.Extensions, e.Option())
	}
	if c.Header != "" {
		d.Header = headerIn(c.HdrForm, c.Header)
	}
	if c.OnHeaderCb {
		if !c.StatusCb {
			lastStatusSeen = nil
		}
		d.OnHeader = func(k, v []byte) error {
			// (The arguments are only valid during the call: copied here.)
			lastStatusSeen = append(lastStatusSeen, []byte("H:"+string(k)+"="+string(v)+"|")...)
			return nil
		}
	}
	if c.HTTPHeader && c.Header == "" { // (a scenario that adds header lines of its own uses the string form)
		d.Header = ws.HandshakeHeaderHTTP(manyHeaders("X-Client-"))
	}
	if c.Timeout {
		d.Timeout = time.Hour
	}
	if c.StatusCb {
		lastStatusSeen = nil
		d.OnStatusError = func(status int, reason []byte, resp io.Reader) {
			// (reason is looked at before resp is read: it is a view into the
			// buffer that reading resp refills - DESIGN §7, observations.)
			seen := []byte(fmt.Sprintf("%d %s|", status, reason))
			b, _ := io.ReadAll(resp)
			lastStatusSeen = append(seen, b...)
		}
	}
	if c.TLS {
		d.TLSClient = func(conn net.Conn, hostname string) net.Conn { return &xorConn{Conn: conn} }
	}
	return d
}

// runClient runs the configured dialer on the pipe.
func runClient(r *eng.Run, c hsClient, p *Pipe) *hsOutcome {
	if c.EOFData {
		p.EOFWithData = true
	}
	o := runClientConn(r, c, p, func() []byte { return p.Out }, -1)
	o.Pipe = p
	o.Consumed = p.Consumed()
	checkNoPoison(r, "dialer", o)
	return o
}

// runClientConn runs the configured dialer on any connection. restLen < 0:
// read what follows the handshake until the stream ends; else exactly restLen
// bytes (a live peer never ends the stream).
func runClientConn(r *eng.Run, c hsClient, p net.Conn, sent func() []byte, restLen int) *hsOutcome {
	o := &hsOutcome{}
	d := c.dialer()
	// warm, if the transport is a scripted pipe, makes a second transport with
	// the same input; reseed restores the nonce source.
	var warm func() net.Conn
	reseed := func() {}
	if pp, ok := p.(*Pipe); ok && clientSeed != nil {
		warm = func() net.Conn {
			q := NewPipe(r, pp.In)
			return q
		}
		seed := *clientSeed
		reseed = func() { rand.Seed(seed) }
	}
	var (
		br *bufio.Reader
		hs ws.Handshake
	)
	var conn io.Reader = p
	dialCtx := context.Background()
	if c.LiveCtx {
		var cancel context.CancelFunc
		dialCtx, cancel = context.WithCancel(dialCtx)
		defer cancel()
	}
	if c.Debug == 0 {
		u, err := url.Parse(c.URL)
		if err != nil {
			r.Internalf("url: %v", err)
		}
		if c.Edited && warm != nil && len(d.Extensions) > 0 {
			// The same Dialer value has made a handshake before, with another
			// first offer in the very same slice element; the application then
			// wrote the offer it wants now over it.
			want := d.Extensions[0]
			d.Extensions[0] = httphead.Option{Name: []byte("x-earlier-offer")}
			reseed()
			if fbr, _, _ := d.Upgrade(warm(), u); fbr != nil {
				ws.PutReader(fbr)
			}
			d.Extensions[0] = want
			reseed()
			r.Probe("dialer_reused_after_offer_edited_in_place")
		}
		br, hs, o.Err = d.Upgrade(p, u)
	} else {
		d.NetDial = func(ctx context.Context, network, addr string) (net.Conn, error) { return p, nil }
		if c.Wrap {
			d.WrapConn = func(nc net.Conn) net.Conn {
				o.Wrapped = &recConn{Conn: nc}
				return o.Wrapped
			}
		}
		dd := &wsutil.DebugDialer{Dialer: d}
		if c.Debug == 1 || c.Debug == 2 {
			dd.OnRequest = func(b []byte) { o.OnReq, o.HasOnReq, o.OnReqRaw = append([]byte(nil), b...), true, b }
		}
		if c.Debug == 1 || c.Debug == 3 {
			dd.OnResponse = func(b []byte) { o.OnResp, o.HasOnResp, o.OnRespRaw = append([]byte(nil), b...), true, b }
		}
		var nc net.Conn
		if c.Reuse && c.Debug != 4 && warm != nil {
			// An earlier Dial through the same DebugDialer value (its own
			// transport, same response), then the one under observation.
			first := warm()
			saveNetDial := dd.Dialer.NetDial
			dd.Dialer.NetDial = func(ctx context.Context, network, addr string) (net.Conn, error) { return first, nil }
			reseed()
			if _, fbr, _, _ := dd.Dial(context.Background(), c.URL); fbr != nil {
				ws.PutReader(fbr)
			}
			dd.Dialer.NetDial = saveNetDial
			o.OnReq, o.OnResp, o.HasOnReq, o.HasOnResp, o.Wrapped = nil, nil, false, false, nil
			reseed()
		}
		if c.Debug == 4 {
			nc, br, hs, o.Err = d.Dial(dialCtx, c.URL)
		} else {
			nc, br, hs, o.Err = dd.Dial(dialCtx, c.URL)
		}
		if nc != nil {
			conn = nc
			if rc, ok := nc.(*recConn); ok && rc == o.Wrapped {
				o.ConnIsWrapper = true
			}
		}
	}
	o.Protocol, o.Exts = hs.Protocol, hs.Extensions
	if c.StatusCb || c.OnHeaderCb {
		o.StatusSeen = lastStatusSeen
	}
	o.Written = c.wire(sent())
	o.Head = o.Written
	if o.Err == nil {
		var src io.Reader = conn
		if br != nil {
			src = br
		}
		var (
			rest []byte
			err  error
		)
		if restLen < 0 {
			rest, err = io.ReadAll(src)
		} else {
			rest = make([]byte, restLen)
			var n int
			n, err = io.ReadFull(src, rest)
			rest = rest[:n]
		}
		if err != nil && !IsInjected(err) {
			o.RestErr = err
		}
		o.Rest = rest
		if br != nil {
			ws.PutReader(br)
		}
	}
	return o
}

// ---------------------------------------------------------------------------
// One full (sequential) handshake: request, response, client verdict.

type hsTrip struct {
	C       hsClient
	S       hsServer
	RSeed   int64
	Request []byte
	Server  *hsOutcome
	Client  *hsOutcome
}

func pipeFor(r *eng.Run, in []byte, seg int) *Pipe {
	p := NewPipe(r, in)
	p.SegMode = seg
	if seg != SegAll && len(in) > 0 && r.T.Chance(sim.LFault, 1, 5) {
		// The peer half-closes right behind its last byte: the transport hands
		// the last bytes over together with io.EOF.
		p.EOFWithData = true
	}
	if seg == SegBoundary {
		// Boundaries of a handshake: line ends.
		for i := 0; i < len(in); i++ {
			if in[i] == '\n' {
				p.Marks = append(p.Marks, Mark{i, 'F'}, Mark{i + 1, 'H'}, Mark{i + 1, 'E'})
			}
		}
		if len(p.Marks) == 0 {
			p.SegMode = SegTiny
		}
	}
	return p
}

// clientSeed, when set, is the math/rand seed in force for dialer runs on
// scripted pipes (needed to repeat a Dial with the same nonce).
var clientSeed *int64

// headerIn wraps header text in one of the library's HandshakeHeader adapters.
func headerIn(form int, text string) ws.HandshakeHeader {
	switch form {
	case 1:
		return ws.HandshakeHeaderBytes([]byte(text))
	case 2:
		return ws.HandshakeHeaderFunc(func(w io.Writer) (int64, error) {
			// An application's writer function: line by line.
			var total int64
			for _, l := range strings.SplitAfter(text, "\r\n") {
				n, err := io.WriteString(w, l)
				total += int64(n)
				if err != nil {
					return total, err
				}
			}
			return total, nil
		})
	}
	return ws.HandshakeHeaderString(text)
}

// manyHeaders is an application's http.Header with eight names.
func manyHeaders(prefix string) http.Header {
	h := http.Header{}
	for i, n := range []string{"Alpha", "Bravo", "Charlie", "Delta", "Echo", "Foxtrot", "Golf", "Hotel"} {
		h.Set(prefix+n, strings.Repeat(string(rune('a'+i)), 3+i))
	}
	// A value an application took over from elsewhere with an obsolete line
	// fold (or a stray line end) in it: net/http writes such values on one
	// line, so must whoever writes an http.Header.
	h.Set(prefix+"Folded", "part one\r\n part two")
	h.Add(prefix+"Golf", "second value\n")
	return h
}

func init() {
	eng.RunStartHooks = append(eng.RunStartHooks, func() {
		clientSeed, lastStatusSeen = nil, nil
		lastExts, lastExtsCopy = nil, nil
		wsutil.DefaultWriteBuffer = 4096
	})
}

// roundTrip runs client(no input) -> server(request) -> client(response).
func roundTrip(r *eng.Run, c hsClient, s hsServer, rseed int64, segS, segC int) *hsTrip {
	t := &hsTrip{C: c, S: s, RSeed: rseed}
	clientSeed = &rseed
	rand.Seed(rseed)
	plain := c
	plain.Debug = 0 // the request is obtained without relying on fault behaviour of the wrappers
	first := runClient(r, plain, NewPipe(r, nil))
	if first.Err == nil {
		r.Failf("handshake_without_response", "Dialer reported success although the server never answered")
	}
	t.Request = append([]byte(nil), first.Written...)
	t.Server = runServer(r, s, pipeFor(r, t.Request, segS))
	rand.Seed(rseed)
	t.Client = runClient(r, c, pipeFor(r, c.wire(t.Server.Written), segC))
	if !bytes.Equal(t.Client.Written, t.Request) {
		// Same configuration, same nonce source: on the unchanged tree the two
		// requests are byte-identical in every run; a difference means the
		// request depends on what earlier handshakes left behind.
		r.Failf("request_differs_between_identical_dials", "the dialer wrote a different request on its second run with the same configuration and nonce (%d vs %d bytes)%s\n  %s", len(t.Client.Written), len(t.Request), firstDiff(t.Client.Written, t.Request), c)
	}
	return t
}

// roundTripTasks runs dialer and upgrader as two tasks under the seeded
// scheduler of engine multi (every conn and pool operation is a scheduling
// point; reads are segmented by the tape). If everybody is parked the
// scheduler closes the conns, so "hung" becomes "failed".
func roundTripTasks(r *eng.Run, c hsClient, s hsServer, rseed int64) (cl, sv *hsOutcome) {
	sch, err := multi.NewSched(r.T, []int{0, 1, 9}[r.T.Int(sim.LSched, 3)])
	if err != nil {
		r.Internalf("scheduler: %v", err)
	}
	cc, sc := sch.Pipe(r.T.Int(sim.LSegMode, 3))
	crec, srec := &recConn{Conn: cc}, &recConn{Conn: sc}
	if c.TLS {
		srec = &recConn{Conn: &xorConn{Conn: sc}} // the server's end of the secure layer
	}
	rand.Seed(rseed)
	var cpanic, spanic interface{}
	sch.Go(func() {
		defer func() { cpanic = recover() }()
		cl = runClientConn(r, c, crec, func() []byte { return crec.written }, len(s.Trailing))
	})
	sch.Go(func() {
		defer func() { spanic = recover() }()
		sv = runServerConn(r, s, srec, func() []byte { return srec.written }, func() bool { return true })
	})
	sch.Run()
	for _, p := range []interface{}{cpanic, spanic} {
		if p != nil {
			panic(p)
		}
	}
	r.Res.Probes["task_switches"] += sch.Switches()
	// (Not when the application's own OnStatusError callback reads the
	// response reader to its end: on a connection that stays open that waits
	// for the peer to close, by the harness's own doing.)
	if sch.Deadlocks() > sch.Mutual() && !c.StatusCb {
		// One peer had returned, the other was still waiting for bytes nobody
		// was going to send (the connection stays open after a handshake,
		// accepted or refused).
		r.Failf("handshake_peer_left_waiting", "as two tasks on a connection that stays open: one peer had returned from its handshake, the other was still waiting for input (client returned=%v, server returned=%v)\n  %s\n  %s", cl != nil, sv != nil, c, s)
	}
	if sch.Mutual() > 0 {
		r.Failf("handshake_peers_wait_for_each_other", "as two tasks on a connection that stays open, dialer and upgrader both ended up waiting for the other (neither had returned)\n  %s\n  %s", c, s)
	}
	return cl, sv
}

// rawClientTasks runs the upgrader of s as a task against a scripted client
// that writes req and then reads until the end of a response head. waiting
// reports that a task had to be woken by closing the connection.
func rawClientTasks(r *eng.Run, req []byte, s hsServer) (sv *hsOutcome, waiting bool) {
	sch, err := multi.NewSched(r.T, []int{0, 1, 9}[r.T.Int(sim.LSched, 3)])
	if err != nil {
		r.Internalf("scheduler: %v", err)
	}
	cc, sc := sch.Pipe(r.T.Int(sim.LSegMode, 3))
	srec := &recConn{Conn: sc}
	var spanic interface{}
	sch.Go(func() {
		cc.Write(req)
		var head []byte
		buf := make([]byte, 256)
		for !bytes.Contains(head, []byte("\r\n\r\n")) {
			n, err := cc.Read(buf)
			head = append(head, buf[:n]...)
			if err != nil {
				return
			}
		}
	})
	sch.Go(func() {
		defer func() { spanic = recover() }()
		sv = runServerConn(r, s, srec, func() []byte { return srec.written }, func() bool { return true })
	})
	sch.Run()
	if spanic != nil {
		panic(spanic)
	}
	return sv, sch.Deadlocks() > 0
}

// expectedProtocol derives the subprotocol both sides must report.
func expectedProtocol(c hsClient, s hsServer) (string, bool) {
	if s.Proto == 0 {
		return "", true
	}
	for _, p := range c.Protocols {
		if strings.ContainsAny(p, " ,") {
			return "", false // malformed offer: the model does not predict
		}
	}
	for _, p := range c.Protocols {
		if (s.Proto == 2 && p == s.ProtoVal) || s.Proto == 3 {
			return p, true
		}
	}
	return "", true
}

// expectedExts derives the accepted extensions for the modes the model covers.
func expectedExts(c hsClient, s hsServer) ([]string, bool) {
	switch s.Ext {
	case 0:
		return nil, true
	case 1, 4, 5:
		var out []string
		for _, e := range c.Exts {
			if inSet(s.ExtAccept, e.Name) {
				if s.Ext == 5 {
					out = append(out, extSpec{Name: e.Name, Params: s.FixedParams}.String())
				} else {
					out = append(out, e.String())
				}
			}
		}
		return out, true
	}
	return nil, false
}

func extStrings(os []httphead.Option) []string {
	var out []string
	for _, o := range os {
		out = append(out, optString(o))
	}
	return out
}

func sameStrings(a, b []string) bool {
	if len(a) != len(b) {
		return false
	}
	for i := range a {
		if a[i] != b[i] {
			return false
		}
	}
	return true
}

// checkAgreement is oracle O1 plus the model where it applies.
func checkAgreement(r *eng.Run, prop string, t *hsTrip) {
	sv, cl := t.Server, t.Client
	if sv.ok() != cl.ok() {
		r.FailProp(prop, "peers_disagree_on_success", "server %s but client %s\n  %s\n  %s", sv.summary(), cl.summary(), t.C, t.S)
	}
	if !sv.ok() {
		r.Probe("handshake_both_fail")
		return
	}
	r.Probe("handshake_both_succeed")
	if sv.Protocol != cl.Protocol {
		r.FailProp(prop, "peers_disagree_on_protocol", "server reports %q, client reports %q\n  %s\n  %s", sv.Protocol, cl.Protocol, t.C, t.S)
	}
	if !sameStrings(extStrings(sv.Exts), extStrings(cl.Exts)) {
		r.FailProp(prop, "peers_disagree_on_extensions", "server reports %q, client reports %q\n  %s\n  %s", optsString(sv.Exts), optsString(cl.Exts), t.C, t.S)
	}
	if p, ok := expectedProtocol(t.C, t.S); ok && sv.Protocol != p {
		r.FailProp(prop, "wrong_protocol", "both sides report %q, the first offered protocol the selector accepts is %q\n  %s\n  %s", sv.Protocol, p, t.C, t.S)
	}
	if xs, ok := expectedExts(t.C, t.S); ok && !sameStrings(extStrings(sv.Exts), xs) {
		r.FailProp(prop, "wrong_extensions", "both sides report %q, the negotiator accepted %q\n  %s\n  %s", optsString(sv.Exts), xs, t.C, t.S)
	}
	if len(sv.Exts) > 0 {
		r.Probe("extensions_negotiated")
	}
	if sv.Protocol != "" {
		r.Probe("protocol_negotiated")
	}
}

func headEnd(b []byte) int {
	i := bytes.Index(b, []byte("\r\n\r\n"))
	if i < 0 {
		return len(b)
	}
	return i + 4
}

// checkWrappers is oracle O3.
func checkWrappers(r *eng.Run, t *hsTrip) {
	sv, cl := t.Server, t.Client
	if sv.HasOnReq && t.C.Odd {
		// net/http, which the wrapper uses to find the end of the request,
		// gives up inside such a head: OnRequest then has what had arrived by
		// then. Only the outcome is asserted for these requests (DESIGN §8).
		if !bytes.HasPrefix(t.Request, sv.OnReq) {
			r.Failf("debug_upgrader_request_bytes", "DebugUpgrader.OnRequest got %d bytes that are not a prefix of the request%s", len(sv.OnReq), firstDiff(sv.OnReq, t.Request))
		}
		r.Probe("request_net_http_refuses")
	} else if sv.HasOnReq && !bytes.Equal(sv.OnReq, t.Request) {
		r.Failf("debug_upgrader_request_bytes", "DebugUpgrader.OnRequest got %d bytes, the request has %d%s", len(sv.OnReq), len(t.Request), firstDiff(sv.OnReq, t.Request))
	}
	if sv.HasOnResp && !bytes.Equal(sv.OnResp, sv.Head) {
		r.Failf("debug_upgrader_response_bytes", "DebugUpgrader.OnResponse got %d bytes, %d were written%s", len(sv.OnResp), len(sv.Head), firstDiff(sv.OnResp, sv.Head))
	}
	if cl.HasOnReq && !bytes.Equal(cl.OnReq, t.Request) {
		r.Failf("debug_dialer_request_bytes", "DebugDialer.OnRequest got %d bytes, the request has %d%s", len(cl.OnReq), len(t.Request), firstDiff(cl.OnReq, t.Request))
	}
	if cl.HasOnResp {
		// Head plus body (Content-Length) of the response.
		want := sv.Head
		if sv.ok() {
			want = sv.Head[:headEnd(sv.Head)]
		}
		if !bytes.Equal(cl.OnResp, want) {
			r.Failf("debug_dialer_response_bytes", "DebugDialer.OnResponse got %d bytes, the response has %d%s", len(cl.OnResp), len(want), firstDiff(cl.OnResp, want))
		}
	}
	if cl.Wrapped != nil {
		// The application's own WrapConn must carry the whole handshake and be
		// the connection Dial hands back.
		if !bytes.Equal(cl.Wrapped.written, t.Request) {
			r.Failf("wrapconn_bypassed", "the application's WrapConn saw %d request bytes, %d were sent (debug=%d)", len(cl.Wrapped.written), len(t.Request), t.C.Debug)
		}
		if cl.ok() && !cl.ConnIsWrapper {
			r.Failf("wrapconn_bypassed", "Dial did not return the connection produced by the application's WrapConn (debug=%d)", t.C.Debug)
		}
		if cl.ok() && len(cl.Wrapped.read) < headEnd(sv.Head) {
			r.Failf("wrapconn_bypassed", "the application's WrapConn saw %d response bytes, the head has %d (debug=%d)", len(cl.Wrapped.read), headEnd(sv.Head), t.C.Debug)
		}
		r.Probe("dial_with_application_wrapconn")
	} else if t.C.Wrap && t.C.Debug != 0 {
		r.Failf("wrapconn_bypassed", "the application's WrapConn was never called (debug=%d)", t.C.Debug)
	}
	if cl.ok() {
		if cl.RestErr != nil {
			r.Failf("post_handshake_read_error", "reading the bytes behind the response head failed: %v", cl.RestErr)
		}
		if !bytes.Equal(cl.Rest, t.S.Trailing) {
			r.Failf("post_handshake_bytes_lost", "server sent %d bytes behind the 101, the client could read %d through buffer+conn (debug=%d)%s", len(t.S.Trailing), len(cl.Rest), t.C.Debug, firstDiff(cl.Rest, t.S.Trailing))
		}
		if len(t.S.Trailing) > 0 {
			r.Probe("trailing_bytes_after_101")
		}
	}
}

// tokenOnly maps a parameter value to an RFC 7230 token (drops what is not a
// token character).
func tokenOnly(v string) string {
	var b []byte
	for i := 0; i < len(v); i++ {
		c := v[i]
		if c >= '0' && c <= '9' || c >= 'a' && c <= 'z' || c >= 'A' && c <= 'Z' || c == '-' || c == '_' || c == '.' {
			b = append(b, c)
		}
	}
	if len(b) == 0 && len(v) > 0 {
		return "t"
	}
	return string(b)
}

// tokenValues returns c with every offered parameter value made a token.
func tokenValues(c hsClient) (hsClient, bool) {
	changed := false
	out := c
	out.Exts = nil
	for _, e := range c.Exts {
		e2 := extSpec{Name: e.Name}
		for _, p := range e.Params {
			t := tokenOnly(p[1])
			if t != p[1] {
				changed = true
			}
			e2.Params = append(e2.Params, [2]string{p[0], t})
		}
		out.Exts = append(out.Exts, e2)
	}
	return out, changed
}

// C11: handshake outcome is shared by both peers and independent of
// transport chunking.
func C11(r *eng.Run) {
	c, s := drawHS(r)
	c.LiveCtx = c.Debug != 0 && r.T.Chance(sim.LCfg, 1, 4)
	c.Timeout = c.Debug != 0 && r.T.Chance(sim.LCfg, 1, 4)
	c.EOFData = r.T.Chance(sim.LFault, 1, 4)
	if c.Debug != 0 && r.T.Chance(sim.LCfg, 1, 4) {
		c.TLS = true
		c.URL = "wss" + strings.TrimPrefix(c.URL, "ws")
		r.Probe("dial_wss_through_tls_client")
	}
	r.SetEntry(fmt.Sprintf("dialer%d-upgrader%d", minInt(c.Debug, 1), s.Kind))
	rseed := int64(r.T.U32(sim.LMisc))
	segS, segC := DrawSeg(r), DrawSeg(r)
	r.Note("C11 %s\n  %s\n  segS=%d segC=%d", c, s, segS, segC)
	r.Res.Nontrivial = true
	t := roundTrip(r, c, s, rseed, segS, segC)
	r.Note("  request %dB, response %dB: server %s, client %s", len(t.Request), len(t.Server.Written), t.Server.summary(), t.Client.summary())
	if longestLine(t.Request) > nonZero(s.RBuf, 4096) {
		r.Probe("request_line_longer_than_read_buffer")
	}
	if longestLine(t.Server.Head) > nonZero(c.RBuf, 4096) {
		r.Probe("response_line_longer_than_read_buffer")
	}
	checkAgreement(r, "C11", t)
	checkWrappers(r, t)
	// Parameter values that are legal only as quoted strings: the same
	// configuration with plain tokens in their place must not fare better.
	if c2, changed := tokenValues(c); changed {
		s2 := s
		s2.FixedParams = nil
		for _, p := range s.FixedParams {
			s2.FixedParams = append(s2.FixedParams, [2]string{p[0], tokenOnly(p[1])})
		}
		t2 := roundTrip(r, c2, s2, rseed, segS, segC)
		if t2.Server.ok() && t2.Client.ok() && !(t.Server.ok() && t.Client.ok()) {
			r.Failf("quoted_parameter_value_breaks_handshake", "with plain tokens as parameter values both peers succeed; with values that need quoting: server %s, client %s\n  %s\n  %s", t.Server.summary(), t.Client.summary(), c, s)
		}
		r.Probe("extension_parameter_value_needs_quoting")
	}
	// The same pair as two concurrently scheduled tasks: the outcome must be
	// the one of the sequential composition, whatever the interleaving.
	if s.Kind != 1 || true {
		cl, sv := roundTripTasks(r, c, s, rseed)
		if cl == nil || sv == nil {
			r.Internalf("task round trip returned no outcome")
		}
		tt := &hsTrip{C: c, S: s, Request: cl.Written, Server: sv, Client: cl}
		if cl.ok() != t.Client.ok() || sv.ok() != t.Server.ok() {
			r.Failf("outcome_depends_on_schedule", "as concurrent tasks: server %s client %s; one after the other: server %s client %s\n  %s\n  %s",
				sv.summary(), cl.summary(), t.Server.summary(), t.Client.summary(), c, s)
		}
		checkAgreement(r, "C11", tt)
		if cl.ok() && (cl.Protocol != t.Client.Protocol || !sameStrings(extStrings(cl.Exts), extStrings(t.Client.Exts))) {
			r.Failf("outcome_depends_on_schedule", "as concurrent tasks the client reports %s, one after the other %s", cl.summary(), t.Client.summary())
		}
		if cl.ok() && !bytes.Equal(cl.Rest, s.Trailing) {
			r.Failf("post_handshake_bytes_lost", "as concurrent tasks: server sent %d bytes behind the 101, the client could read %d (err %v, debug=%d)", len(s.Trailing), len(cl.Rest), cl.RestErr, c.Debug)
		}
		r.Probe("handshake_as_two_tasks")
	}
	// O3b: the wrapper must not change the outcome: the plain upgrader on the
	// same bytes with the same segmentation.
	if s.Kind == 2 {
		sp := s
		sp.Kind = 0
		plain := runServer(r, sp, pipeFor(r, t.Request, segS))
		if errStr(plain.Err) != errStr(t.Server.Err) || plain.Protocol != t.Server.Protocol || !sameStrings(extStrings(plain.Exts), extStrings(t.Server.Exts)) || !bytes.Equal(plain.Head, t.Server.Head) {
			r.Failf("debug_upgrader_changes_outcome", "ws.Upgrader alone: %s (%d bytes written); through DebugUpgrader: %s (%d bytes written)\n  %s\n  %s",
				plain.summary(), len(plain.Head), t.Server.summary(), len(t.Server.Head), c, s)
		}
	}
	// The same request with bare LF line ends (RFC 7230 §3.5 lets a recipient
	// accept them; whatever the upgrader does with it, the wrapper does too).
	if s.Kind == 2 && r.T.Chance(sim.LCfg, 1, 2) {
		lf := bytes.ReplaceAll(t.Request, []byte("\r\n"), []byte("\n"))
		sp := s
		sp.Kind = 0
		plain := runServer(r, sp, pipeFor(r, lf, segS))
		dbg := runServer(r, s, pipeFor(r, lf, segS))
		if errStr(plain.Err) != errStr(dbg.Err) || plain.Protocol != dbg.Protocol || !sameStrings(extStrings(plain.Exts), extStrings(dbg.Exts)) || !bytes.Equal(plain.Head, dbg.Head) {
			r.Failf("debug_upgrader_changes_outcome", "request with bare LF line ends: ws.Upgrader alone: %s (%d bytes written); through DebugUpgrader: %s (%d bytes written)\n  %s\n  %s",
				plain.summary(), len(plain.Head), dbg.summary(), len(dbg.Head), c, s)
		}
		r.Probe("request_with_bare_lf_line_ends")
		// And on a connection that stays open (a scripted client writes the
		// request and waits for the response head): the wrapper, too, answers
		// without waiting for more than the request.
		if plain.Err == nil {
			sv, waiting := rawClientTasks(r, lf, s)
			if waiting || sv == nil || errStr(sv.Err) != errStr(plain.Err) {
				r.Failf("debug_upgrader_changes_outcome", "request with bare LF line ends on a connection that stays open: ws.Upgrader alone: %s; DebugUpgrader: returned=%v, left waiting for input=%v\n  %s\n  %s",
					plain.summary(), sv != nil, waiting, c, s)
			}
		}
	}
	// O2: the same peer on the same bytes with one segment and default buffers.
	sb, cb := s, c
	sb.RBuf, sb.WBuf, cb.RBuf, cb.WBuf = 0, 0, 0, 0
	base := runServer(r, sb, pipeFor(r, t.Request, SegAll))
	compareOutcome(r, "upgrader", base, t.Server, fmt.Sprintf("one segment/default buffers vs seg=%d rbuf=%d wbuf=%d", segS, s.RBuf, s.WBuf), t)
	rand.Seed(rseed)
	cbase := runClient(r, cb, pipeFor(r, cb.wire(t.Server.Written), SegAll))
	compareOutcome(r, "dialer", cbase, t.Client, fmt.Sprintf("one segment/default buffers vs seg=%d rbuf=%d wbuf=%d", segC, c.RBuf, c.WBuf), t)
	// The same response from a server that ends its lines (or only its status
	// line) with a bare LF: whatever the dialer makes of it, it makes the same
	// of it under every chunking.
	if !(c.TLS && c.Debug != 0) && r.T.Chance(sim.LCfg, 1, 3) {
		resp := t.Server.Written
		he := headEnd(resp)
		var lf []byte
		if r.T.Bool(sim.LCfg) {
			lf = append(bytes.Replace(resp[:he:he], []byte("\r\n"), []byte("\n"), 1), resp[he:]...)
		} else {
			lf = append(bytes.ReplaceAll(resp[:he:he], []byte("\r\n"), []byte("\n")), resp[he:]...)
		}
		rand.Seed(rseed)
		la := runClient(r, cb, pipeFor(r, lf, SegAll))
		rand.Seed(rseed)
		lb := runClient(r, c, pipeFor(r, lf, segC))
		compareOutcome(r, "dialer", la, lb, fmt.Sprintf("response with bare LF line ends: one segment/default buffers vs seg=%d rbuf=%d wbuf=%d", segC, c.RBuf, c.WBuf), t)
		if la.HasOnResp != lb.HasOnResp || !bytes.Equal(la.OnResp, lb.OnResp) {
			r.Failf("debug_dialer_response_bytes", "response with bare LF line ends: DebugDialer.OnResponse got %d bytes with one segment/default buffers, %d with seg=%d rbuf=%d%s", len(la.OnResp), len(lb.OnResp), segC, c.RBuf, firstDiff(la.OnResp, lb.OnResp))
		}
		if la.ok() && la.HasOnResp && !bytes.Equal(la.OnResp, lf[:len(lf)-len(resp[he:])]) {
			r.Failf("debug_dialer_response_bytes", "response with bare LF line ends: DebugDialer.OnResponse got %d bytes, the response head has %d", len(la.OnResp), len(lf)-len(resp[he:]))
		}
		r.Probe("response_with_bare_lf_line_ends")
		if len(la.StatusSeen) > 0 {
			r.Probe("status_callback_on_response_with_bare_lf")
		}
	}
	// The reports of the first round trip, looked at again after all the
	// further handshakes of this run: an application that keeps what its
	// callbacks were given still has the same bytes.
	for _, o := range []*hsOutcome{t.Server, t.Client} {
		if (o.HasOnReq && !bytes.Equal(o.OnReqRaw, o.OnReq)) || (o.HasOnResp && !bytes.Equal(o.OnRespRaw, o.OnResp)) {
			r.FailProp("C17", "result_changed_after_later_operations", "the bytes a debug wrapper reported to OnRequest/OnResponse changed after later handshakes of the same process")
		}
	}
}

func nonZero(a, b int) int {
	if a != 0 {
		return a
	}
	return b
}

func longestLine(b []byte) int {
	m := 0
	for _, l := range bytes.Split(b, []byte("\n")) {
		if len(l)+1 > m {
			m = len(l) + 1
		}
	}
	return m
}

func compareOutcome(r *eng.Run, who string, a, b *hsOutcome, what string, t *hsTrip) {
	if errStr(a.Err) != errStr(b.Err) || a.Protocol != b.Protocol || !sameStrings(extStrings(a.Exts), extStrings(b.Exts)) {
		r.Failf("outcome_depends_on_chunking", "%s: %s: %s vs %s\n  %s\n  %s", who, what, a.summary(), b.summary(), t.C, t.S)
	}
	if !bytes.Equal(a.Written, b.Written) {
		r.Failf("output_depends_on_chunking", "%s: %s: bytes written differ (%d vs %d)%s\n  %s\n  %s", who, what, len(a.Written), len(b.Written), firstDiff(a.Written, b.Written), t.C, t.S)
	}
	if !bytes.Equal(a.StatusSeen, b.StatusSeen) {
		r.Failf("outcome_depends_on_chunking", "%s: %s: OnStatusError was given something else (%d vs %d bytes)%s", who, what, len(a.StatusSeen), len(b.StatusSeen), firstDiff(a.StatusSeen, b.StatusSeen))
	}
	if !bytes.Equal(a.Rest, b.Rest) {
		r.Failf("post_handshake_bytes_lost", "%s: %s: bytes readable behind the handshake differ (%d vs %d)", who, what, len(a.Rest), len(b.Rest))
	}
}

// ---------------------------------------------------------------------------
// C16, handshake part: cut requests / responses and failing writes.

func C16Handshake(r *eng.Run) {
	c, s := drawHS(r)
	netErr := r.T.Chance(sim.LFault, 1, 3) // injected errors are net.Errors calling themselves timeouts
	c.LiveCtx = c.Debug != 0 && r.T.Bool(sim.LCfg)
	c.Timeout = c.Debug != 0 && r.T.Chance(sim.LCfg, 1, 3)
	httpKind := s.Kind == 1 // request parsing of HTTPUpgrader is net/http's: only its response writes are failed
	// Keep the enumerated streams short.
	if len(c.Header) > 200 {
		c.Header = "X-Custom: value\r\n"
	}
	if len(s.Header) > 200 {
		s.Header = "X-Server: sim\r\n"
	}
	s.Reject = 0
	r.SetEntry(fmt.Sprintf("handshake/dialer%d-upgrader%d", minInt(c.Debug, 1), s.Kind))
	rseed := int64(r.T.U32(sim.LMisc))
	seg := DrawSeg(r)
	withData := r.T.Chance(sim.LFault, 1, 4)
	t := roundTrip(r, c, s, rseed, SegAll, SegAll)
	r.Note("C16 handshake %s\n  %s\n  seg=%d request %dB response %dB server %s", c, s, seg, len(t.Request), len(t.Server.Written), t.Server.summary())
	r.Res.Nontrivial = true
	// 1. The request is cut at every offset.
	r.T.Mark()
	for k := 0; k < len(t.Request) && !httpKind; k++ {
		for kind := CutEOF; kind <= CutErr; kind++ {
			r.T.Rewind()
			r.Res.FaultPoints++
			p := pipeFor(r, t.Request, seg)
			p.CutAt, p.CutKind, p.EOFWithData, p.NetErr = k, kind, withData, netErr
			o := runServer(r, s, p)
			r.Fault("handshake_request_cut")
			if o.Err == nil {
				r.Failf("cut_handshake_succeeded", "Upgrader kind %d: request cut(%s) at offset %d of %d: Upgrade returned success (%s)", s.Kind, kindName(kind), k, len(t.Request), o.summary())
			}
			if bytes.Contains(o.Written, []byte(" 101 ")) {
				r.Failf("101_for_cut_request", "Upgrader kind %d: request cut at offset %d of %d: a 101 response was written", s.Kind, k, len(t.Request))
			}
		}
	}
	// 1b/2b. A hiccup instead of a cut: at offset k one read fails with an
	// error that calls itself temporary, then the stream goes on. The
	// handshake may fail - or, if the implementation reads on, it must end
	// exactly as the undisturbed one did.
	hiccup := func(who string, k int, o, undisturbed *hsOutcome) {
		if o.Err != nil {
			return
		}
		if undisturbed.Err != nil || o.Protocol != undisturbed.Protocol || !sameStrings(extStrings(o.Exts), extStrings(undisturbed.Exts)) || !bytes.Equal(o.Head, undisturbed.Head) {
			r.Failf("handshake_differs_after_temporary_error", "%s: one read failed with a temporary error at offset %d and the stream went on: the handshake reports %s (%d bytes written), undisturbed it is %s (%d bytes written)", who, k, o.summary(), len(o.Head), undisturbed.summary(), len(undisturbed.Head))
		}
	}
	if !httpKind {
		for k := 0; k < len(t.Request); k++ {
			r.T.Rewind()
			r.Res.FaultPoints++
			p := pipeFor(r, t.Request, seg)
			p.CutAt, p.CutKind, p.CutResume, p.TempErr = k, CutErr, true, true
			hiccup(fmt.Sprintf("Upgrader kind %d", s.Kind), k, runServer(r, s, p), t.Server)
			r.Fault("handshake_read_hiccup")
		}
	}
	if t.Server.ok() {
		for k := 0; k < len(t.Server.Head); k++ {
			r.T.Rewind()
			r.Res.FaultPoints++
			rand.Seed(rseed)
			p := pipeFor(r, t.Server.Written, seg)
			p.CutAt, p.CutKind, p.CutResume, p.TempErr = k, CutErr, true, true
			hiccup("Dialer", k, runClient(r, c, p), t.Client)
			r.Fault("handshake_read_hiccup")
		}
	}
	// 2. The response head is cut at every offset.
	head := t.Server.Head
	if t.Server.ok() {
		for k := 0; k < len(head); k++ {
			for kind := CutEOF; kind <= CutErr; kind++ {
				r.T.Rewind()
				r.Res.FaultPoints++
				rand.Seed(rseed)
				p := pipeFor(r, t.Server.Written, seg)
				p.CutAt, p.CutKind, p.EOFWithData, p.NetErr = k, kind, withData, netErr
				o := runClient(r, c, p)
				r.Fault("handshake_response_cut")
				if o.Err == nil {
					r.Failf("cut_handshake_succeeded", "Dialer: response cut(%s) at offset %d of %d: Upgrade returned success (%s)", kindName(kind), k, len(head), o.summary())
				}
			}
		}
	}
	// 3. Every write call of the response fails.
	for j := 0; j < len(t.Server.Pipe.WCalls); j++ {
		if t.Server.ok() && j == len(t.Server.Pipe.WCalls)-1 && len(s.Trailing) > 0 {
			break // the harness' own trailing write
		}
		for _, m := range []int{0, 1} {
			r.Res.FaultPoints++
			p := pipeFor(r, t.Request, SegAll)
			p.WFailAt, p.WFailN, p.NetErr = j, m, netErr
			o := runServer(r, s, p)
			r.Fault("handshake_response_write_fail")
			if o.Err == nil {
				r.Failf("failed_write_handshake_succeeded", "Upgrader kind %d: response write call %d of %d failed after %d bytes: Upgrade returned success", s.Kind, j, len(t.Server.Pipe.WCalls), m)
			}
		}
	}
	// 4. Every write call of the request fails.
	rand.Seed(rseed)
	probe := runClient(r, c, pipeFor(r, t.Server.Written, SegAll))
	for j := 0; j < len(probe.Pipe.WCalls); j++ {
		for _, m := range []int{0, 1} {
			r.Res.FaultPoints++
			rand.Seed(rseed)
			p := pipeFor(r, t.Server.Written, SegAll)
			p.WFailAt, p.WFailN, p.NetErr = j, m, netErr
			o := runClient(r, c, p)
			r.Fault("handshake_request_write_fail")
			if o.Err == nil {
				r.Failf("failed_write_handshake_succeeded", "Dialer: request write call %d of %d failed after %d bytes: Upgrade returned success", j, len(probe.Pipe.WCalls), m)
			}
			if o.HasOnReq && !bytes.HasPrefix(p.Out, o.OnReq) {
				r.FailProp("C11", "debug_dialer_reports_bytes_never_sent", "Dialer: request write call %d of %d failed after %d bytes: the transport took %d bytes, DebugDialer.OnRequest reports %d%s", j, len(probe.Pipe.WCalls), m, len(p.Out), len(o.OnReq), firstDiff(o.OnReq, p.Out))
			}
		}
	}
}
