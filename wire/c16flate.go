package wire

import (
	"bytes"
	"compress/flate"
	"io"

	"github.com/gobwas/ws"
	"github.com/gobwas/ws/wsflate"
	"github.com/gobwas/ws/wsutil"

	"verif/eng"
	"verif/ref"
	"verif/sim"
)

// C16Flate: the stream shape of a compressed, fragmented message (the sender
// flushes its compressor at every fragment boundary, as the documented writer
// stack does), read through wsutil.Reader + wsflate.Reader. Cut or failing at
// any offset, reading until EOF must end in an error: half a message with the
// deflate tail appended inflates perfectly well.
func C16Flate(r *eng.Run) {
	r.SetEntry("Reader+wsflate.Reader")
	side := ref.Side(r.T.Int(sim.LSide, 2))
	msg := drawFlateMsg(r)
	if len(msg) > 600 {
		msg = msg[:600]
	}
	if len(msg) < 4 {
		msg = append(msg, "more"...)
	}
	nfrag := 2 + r.T.Int(sim.LNFrag, 2)
	var comp bytes.Buffer
	fw, _ := flate.NewWriter(&comp, 1+r.T.Int(sim.LCfg, 9))
	var frames []*ref.Frame
	pos, sent := 0, 0
	for k := 0; k < nfrag; k++ {
		end := len(msg)
		if k < nfrag-1 {
			end = pos + r.T.Int(sim.LSeg, len(msg)-pos+1)
		}
		fw.Write(msg[pos:end])
		fw.Flush()
		pos = end
		pl := append([]byte(nil), comp.Bytes()[sent:]...)
		sent = comp.Len()
		if k == nfrag-1 {
			pl = pl[:len(pl)-4] // RFC 7692 7.2.1: the tail of the last flush is not sent
		}
		f := &ref.Frame{Op: ref.OpCont, Fin: k == nfrag-1, Payload: pl}
		if k == 0 {
			f.Op, f.Rsv = ref.OpBinary, 4
		}
		if side == ref.Server {
			f.Masked, f.Mask = true, drawMask(r)
		}
		frames = append(frames, f)
		if k < nfrag-1 && r.T.Chance(sim.LCtrl, 1, 4) {
			c := &ref.Frame{Fin: true, Op: ref.OpPing, Payload: []byte("p")}
			if side == ref.Server {
				c.Masked, c.Mask = true, drawMask(r)
			}
			frames = append(frames, c)
		}
	}
	wire := ref.Encode(frames)
	seg := DrawSeg(r)
	withData := r.T.Chance(sim.LFault, 1, 4)
	byteReader := r.T.Bool(sim.LCfg)
	r.Note("C16 flate side=%d seg=%d message %d bytes in %d compressed fragments, stream %s", side, seg, len(msg), nfrag, (&Stream{Frames: frames}).Describe())
	r.Res.Nontrivial = true
	read := func(p *Pipe) ([]byte, error) {
		var ms wsflate.MessageState
		rd := &wsutil.Reader{Source: p, State: sideState(side) | ws.StateExtended, Extensions: []wsutil.RecvExtension{&ms}}
		if _, err := rd.NextFrame(); err != nil {
			return nil, err
		}
		var src io.Reader = rd
		if byteReader {
			src = &readerByteSrc{r: rd}
		}
		fr := wsflate.NewReader(src, func(x io.Reader) wsflate.Decompressor { return flate.NewReader(x) })
		return io.ReadAll(fr)
	}
	// Undisturbed, the message comes back.
	p := NewPipe(r, wire)
	p.Marks, p.SegMode = MarksOf(frames), seg
	if got, err := read(p); err != nil || !bytes.Equal(got, msg) {
		r.FailProp("C13", "roundtrip_mismatch", "undisturbed compressed fragmented message: got %d of %d bytes, err %v", len(got), len(msg), err)
	}
	r.T.Mark()
	for k := 0; k < len(wire); k++ {
		for kind := CutEOF; kind <= CutErr; kind++ {
			r.T.Rewind()
			r.Res.FaultPoints++
			p := NewPipe(r, wire)
			p.Marks, p.SegMode, p.EOFWithData = MarksOf(frames), seg, withData
			p.CutAt, p.CutKind = k, kind
			got, err := read(p)
			r.Fault("compressed_stream_cut")
			if err == nil {
				r.Failf("success_for_cut_unit", "compressed fragmented message cut(%s) at offset %d of %d: reading the decompressor until EOF returned %d of %d bytes and no error", kindName(kind), k, len(wire), len(got), len(msg))
			}
		}
	}
	// The decompressing reader straight over a source of its own (the
	// compressed payload as the application received it some other way): the
	// source fails at any offset with an error that says where it came from
	// and wraps io.EOF (a tunnel that closed) - an abnormal end all the same.
	payload := comp.Bytes()[:comp.Len()-4]
	for k := 0; k < len(payload); k++ {
		r.T.Rewind()
		r.Res.FaultPoints++
		p := NewPipe(r, payload)
		p.SegMode, p.EOFWithData = seg, withData
		p.CutAt, p.CutKind, p.WrapEOFErr = k, CutErr, true
		var src io.Reader = p
		if byteReader {
			src = &byteSrc{p}
		}
		fr := wsflate.NewReader(src, func(x io.Reader) wsflate.Decompressor { return flate.NewReader(x) })
		got, err := io.ReadAll(fr)
		r.Fault("compressed_source_fails_with_wrapped_eof")
		if err == nil {
			r.Failf("success_for_cut_unit", "wsflate.Reader over a source that fails at offset %d of %d with an error wrapping io.EOF: reading until EOF returned %d of %d bytes and no error", k, len(payload), len(got), len(msg))
		}
	}
}

// readerByteSrc gives a wsutil.Reader a ReadByte (sources that are
// io.ByteReaders take another path in wsflate).
type readerByteSrc struct {
	r       *wsutil.Reader
	pending error // the error that came together with the last byte handed out
}

func (b *readerByteSrc) Read(p []byte) (int, error) {
	if b.pending != nil {
		err := b.pending
		b.pending = nil
		return 0, err
	}
	return b.r.Read(p)
}

func (b *readerByteSrc) ReadByte() (byte, error) {
	var one [1]byte
	for {
		n, err := b.Read(one[:])
		if n == 1 {
			b.pending = err
			return one[0], nil
		}
		if err != nil {
			return 0, err
		}
	}
}
