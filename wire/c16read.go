package wire

import (
	"bytes"
	"io"

	"verif/eng"
	"verif/ref"
	"verif/sim"
)

// cutPos classifies wire offset k of stream s.
type cutPos struct {
	frame     *ref.Frame // frame containing k (k in [Off,End)), nil if k is the end of the stream
	atStart   bool       // k == frame.Off: the previous frame is complete
	inHeader  bool       // Off < k < HdrEnd
	inPayload bool       // HdrEnd <= k < End
	midMsg    bool       // frame is a continuation or an intermediate control frame of an open message
	msg       *Msg       // the open message (midMsg), or the message frame belongs to
}

func classifyCut(s *Stream, k int) cutPos {
	var c cutPos
	for _, f := range s.Frames {
		if f.Off <= k && k < f.End {
			c.frame = f
			break
		}
	}
	if c.frame == nil {
		return c
	}
	f := c.frame
	c.atStart = k == f.Off
	c.inHeader = k > f.Off && k < f.HdrEnd
	c.inPayload = k >= f.HdrEnd
	for _, it := range s.Items {
		m := it.Msg
		if m == nil {
			continue
		}
		if m.First.Off <= f.Off && f.Off <= m.Last.Off {
			c.msg = m
			c.midMsg = f != m.First
			break
		}
	}
	return c
}

// cutOffsets returns the offsets at which a stream is cut: all of them when it
// is short, otherwise everything around structural marks plus a seeded sample.
func cutOffsets(r *eng.Run, s *Stream) (offs []int, exhaustive bool) {
	n := len(s.Wire)
	if n <= 2048 && len(s.Frames) <= 48 {
		offs = make([]int, n)
		for i := range offs {
			offs[i] = i
		}
		return offs, true
	}
	seen := map[int]bool{}
	add := func(o int) {
		if o >= 0 && o < n && !seen[o] {
			seen[o] = true
			offs = append(offs, o)
		}
	}
	// (With very many frames - a gap holding a hundred and more control
	// frames - the marks of the first and last eight frames and of a seeded
	// sample of the others: every execution parses the whole stream.)
	pick := func(i int) bool { return true }
	if nf := len(s.Frames); nf > 48 {
		chosen := map[int]bool{}
		for i := 0; i < 24; i++ {
			chosen[8+r.T.Int(sim.LFaultAt, nf-16)] = true
		}
		pick = func(i int) bool { return i < 8 || i >= nf-8 || chosen[i] }
	}
	for i, f := range s.Frames {
		if !pick(i) {
			continue
		}
		for o := f.Off - 1; o <= f.HdrEnd+2; o++ {
			add(o)
		}
		add(f.End - 2)
		add(f.End - 1)
	}
	samples := 64
	if n > 1<<20 {
		samples = 12 // every execution allocates the frame
	}
	for i := 0; i < samples; i++ {
		add(r.T.Int(sim.LFaultAt, n))
	}
	return offs, false
}

// C16Read: a stream that ends or fails at any byte offset never yields a
// complete-looking unit (read side of C16).
func C16Read(r *eng.Run) {
	cfg := drawReadCfg(r, []int{AppReader, AppReader, AppReader, AppNextReader, AppReadMessage, AppReadData, AppReadData, AppReadFrame})
	cfg.Extended = false
	r.SetEntry(cfg.Name())
	budget := 400
	if r.T.Chance(sim.LSize, 1, 12) || (cfg.App == AppReadFrame && r.T.Bool(sim.LSize)) {
		budget = 72 * 1024
	}
	s := GenStream(r, StreamCfg{Recv: cfg.Side, MaxMsgs: 3, TextValid: true, Budget: budget})
	if budget > 400 && cfg.App == AppReadFrame && r.T.Bool(sim.LSize) {
		// One frame beyond 64 KiB for certain.
		n := 65537 + r.T.Int(sim.LLen, 3000)
		if r.T.Chance(sim.LSize, 1, 3) {
			// ... or beyond a megabyte or two (where an implementation may stop
			// trusting the announced length and read piecemeal).
			n = []int{1<<20 + 1, 1<<20 + 4096, 2<<20 + 1}[r.T.Int(sim.LSize, 3)] + r.T.Int(sim.LLen, 3000)
			r.Probe("frame_beyond_a_megabyte_cut")
		}
		big := &ref.Frame{Fin: true, Op: ref.OpBinary, Payload: drawPayload(r, n, false)}
		if cfg.Side == ref.Server {
			big.Masked, big.Mask = true, drawMask(r)
		}
		s = &Stream{Frames: []*ref.Frame{big}, Items: []Item{{Msg: &Msg{Op: big.Op, Payload: big.Payload, Frames: []*ref.Frame{big}, First: big, Last: big}}}}
		s.Wire = ref.Encode(s.Frames)
		r.Probe("frame_beyond_64k_cut")
	}
	seg := DrawSeg(r)
	withData := r.T.Chance(sim.LFault, 1, 4)
	zeroReads, netErr := r.T.Chance(sim.LFault, 1, 8), r.T.Chance(sim.LFault, 1, 3)
	resume := r.T.Chance(sim.LFault, 1, 4) // error cuts fire once, then the stream goes on
	cfg.ZeroBuf = (cfg.App == AppReader || cfg.App == AppNextReader) && r.T.Chance(sim.LFault, 1, 8)
	if cfg.App == AppReader && r.T.Chance(sim.LCfg, 1, 4) {
		// The stream is valid up to the cut: a Reader told to skip the
		// header checks has to report the cut all the same.
		cfg.SkipCheck = true
		r.Probe("cut_with_header_check_skipped")
	}
	model := Model(s, cfg)
	r.Note("C16 read %s side=%d seg=%d endWithData=%v stream(%d bytes): %s", cfg.Name(), cfg.Side, seg, withData, len(s.Wire), s.Describe())

	offs, _ := cutOffsets(r, s)
	r.T.Mark()
	for _, k := range offs {
		for kind := CutEOF; kind <= CutErr; kind++ {
			r.T.Rewind()
			r.Res.FaultPoints++
			p := NewPipe(r, s.Wire)
			p.Marks = MarksOf(s.Frames)
			p.SegMode = seg
			p.EOFWithData, p.ZeroReads, p.NetErr = withData, zeroReads, netErr
			p.CutAt, p.CutKind = k, kind
			// (An error handed over together with bytes that complete an
			// io.ReadFull - a header hop, the last payload bytes of ReadFrame -
			// is dropped by io.ReadFull itself, as everywhere in Go; with data
			// the resuming error is therefore only placed strictly inside a
			// payload.)
			p.CutResume = resume && kind == CutErr && (!withData || strictlyInsidePayload(s, k))
			o := RunApp(r, p, cfg)
			checkCut(r, cfg, s, model, p, o, k, kind)
		}
	}
	r.Res.Nontrivial = true
}

func kindName(kind int) string {
	if kind == CutErr {
		return "error"
	}
	return "EOF"
}

func checkCut(r *eng.Run, cfg ReadCfg, s *Stream, model []Exp, p *Pipe, o *Outcome, k, kind int) {
	where := classifyCut(s, k)
	tag := "cut(" + kindName(kind) + ")@" + itoa(k)
	if where.frame != nil {
		tag += " in " + frameStr(where.frame)
	}
	if kind == CutErr {
		r.Fault("cut_err")
	} else {
		r.Fault("cut_eof")
	}
	switch {
	case where.inHeader:
		r.Probe("cut_in_header")
	case where.inPayload:
		r.Probe("cut_in_payload")
	case where.midMsg:
		r.Probe("cut_between_fragments")
	default:
		r.Probe("cut_at_top_level_boundary")
	}
	if where.frame != nil && ref.IsControl(where.frame.Op) && where.midMsg {
		r.Probe("cut_in_intermediate_ctrl")
	}

	want := Before(model, k)
	got := o.Delivered()
	if kind == CutErr && p.EOFWithData {
		// The transport reported its error together with the last bytes
		// before the cut: a unit ending exactly there may legitimately fail
		// (the library sees data and error in one Read); if it is delivered
		// it must be exact.
		min := Before(model, k-1)
		if len(got) >= len(min) && len(got) < len(want) {
			want = want[:len(got)]
		}
	}
	CheckRecs(r, cfg, o, want)
	if len(got) > len(want) {
		g := got[len(want)]
		if g.Kind == 'I' && g.Short {
			r.Failf("control_handler_short_payload", "%s %s: OnIntermediate handler read a clean EOF after %d of %d payload bytes",
				cfg.Name(), tag, len(g.Data), g.Hdr.Length)
		}
		if g.Kind == 'I' {
			// The handler stopped reading on its own (modes 2/3) before the
			// cut was noticed; what it did read must be exact. The library's
			// drain then has to report the cut (checked through o.Err below).
			if where.frame == nil || !g.Partial || len(g.Data) > len(where.frame.Payload) || !bytes.Equal(g.Data, where.frame.Payload[:len(g.Data)]) {
				r.Failf("control_handler_short_payload", "%s %s: OnIntermediate handler completed for a cut control frame (%d of %d bytes, partial=%v)",
					cfg.Name(), tag, len(g.Data), g.Hdr.Length, g.Partial)
			}
		} else {
			what := "delivered as complete"
			if g.Partial {
				what = "Discard reported success"
			}
			r.Failf("success_for_cut_unit", "%s %s: unit %d (kind=%c op=%d, %d bytes handed out) %s although it is not whole before the cut",
				cfg.Name(), tag, len(want), g.Kind, g.Op, len(g.Data), what)
		}
	}
	if o.Err == nil {
		r.Internalf("application returned without error")
	}
	// Which errors are acceptable for the cut unit.
	needNonEOF := false
	switch {
	case where.frame == nil:
	case where.inPayload:
		needNonEOF = true
	case where.midMsg:
		needNonEOF = true // between fragments or inside a continuation/intermediate header
	}
	if cfg.App == AppReadFrame {
		needNonEOF = false // ws.ReadFrame: only "an error" is demanded (DESIGN §4 C16)
	}
	if needNonEOF && o.Err == io.EOF {
		r.Failf("clean_eof_for_cut_unit", "%s %s: %s returned io.EOF: a cut payload / a stream ending inside a message looks like a clean end",
			cfg.Name(), tag, o.ErrAt)
	}
	// Data handed out for the open unit must be a prefix of the first
	// undelivered unit of its kind.
	if o.Open != nil && !o.Open.NoData && len(o.Open.Data) > 0 {
		var full []byte
		found := false
		for _, e := range model[minInt(len(got), len(model)):] {
			if e.Kind == o.Open.Kind || (cfg.App != AppReader && e.Kind != 'I') {
				full, found = e.Data, true
				break
			}
		}
		if !found || len(o.Open.Data) > len(full) || !bytes.Equal(o.Open.Data, full[:len(o.Open.Data)]) {
			r.Failf("wrong_payload", "%s %s: %d bytes handed out for the cut unit are not a prefix of its payload%s", cfg.Name(), tag, len(o.Open.Data), firstDiff(o.Open.Data, full))
		}
	}
	if cfg.App == AppReadData {
		// No reply may be produced from a cut control frame.
		fs, rest, err := ref.DecodeAll(p.Out)
		wantPongs := ExpectedReplies(s, k)
		if kind == CutErr && p.EOFWithData && len(fs) == len(ExpectedReplies(s, k-1)) {
			// Error reported together with the last byte of a ping: replying
			// is optional.
			wantPongs = ExpectedReplies(s, k-1)
		}
		if err != nil || rest != 0 || len(fs) > len(wantPongs) {
			r.Failf("reply_from_cut_control", "%s %s: %d reply frames written (rest=%d), only %d pings are whole before the cut",
				cfg.Name(), tag, len(fs), rest, len(wantPongs))
		}
		CheckPongs(r, cfg, p, wantPongs)
	}
	if cfg.App == AppReader && cfg.OnCont {
		CheckConts(r, cfg, o, s, k)
	}
}

// strictlyInsidePayload reports whether wire offset k lies inside the payload
// of a frame, at neither end of it.
func strictlyInsidePayload(s *Stream, k int) bool {
	for _, f := range s.Frames {
		if k > f.HdrEnd && k < f.End {
			return true
		}
	}
	return false
}
