package wire

import (
	"bufio"
	"bytes"
	"fmt"
	"io"

	"github.com/gobwas/ws"
	"github.com/gobwas/ws/wsflate"
	"github.com/gobwas/ws/wsutil"

	"verif/eng"
	"verif/ref"
	"verif/sim"
)

// C13: RSV1 is set and accepted only on the first frame of a message, and the
// message state is not disturbed by control frames.
func C13(r *eng.Run) {
	if r.T.Chance(sim.LEntry, 1, 12) {
		c13FrameHelpers(r)
		return
	}
	switch r.T.Int(sim.LEntry, 6) {
	case 0, 1:
		c13Scripted(r)
	case 2:
		c13Marked(r)
	default:
		c13Stack(r)
	}
}

// c13Marked attaches the message state (marked compressed or not) to the
// fragmenting writer and drives arbitrary call histories: whatever the
// fragmentation (empty first frames, write-through, growth, hundreds of
// fragments), RSV1 sits on the first frame of a compressed message and
// nowhere else. The frame-level oracle is the one of C06.
func c13Marked(r *eng.Run) {
	cfg := drawWCfg(r)
	cfg.Ext = 1 + r.T.Int(sim.LCfg, 2)
	cfg.NoFlush = false
	r.SetEntry("Writer+MessageState/" + ctorNames[cfg.Ctor])
	ops := drawHistory(r, cfg, 12)
	if r.T.Chance(sim.LHist, 1, 4) {
		// Many fragments: a tiny buffer fed by a chunked source.
		cfg.Ctor, cfg.Size = 1, 1+r.T.Int(sim.LSize, 2)
		n := 257 + r.T.Int(sim.LLen, 400)
		ops = []WOp{{Kind: WOpReadFrom, N: n, Chunks: []int{n}}, {Kind: WOpFlush}, {Kind: WOpWrite, N: 3}, {Kind: WOpFlush}}
		r.Probe("message_of_more_than_256_fragments")
	}
	seed := r.T.U32(sim.LPaySeed)
	p := NewPipe(r, nil)
	wr := &WRun{Cfg: cfg, Ops: ops, Pipe: p}
	wr.W = NewW(cfg, p)
	wr.MS = applyOptions(wr.W, cfg)
	wr.Size0 = wr.W.Size()
	r.Note("C13 marked %s history %v", cfg, ops)
	r.Res.Nontrivial = true
	// The application may attach the same state again (e.g. after every
	// ResetOp): the writer must not end up consulting it twice.
	if r.T.Chance(sim.LHist, 1, 3) {
		at := r.T.Int(sim.LHist, len(ops)+1)
		ops = append(append(append([]WOp(nil), ops[:at]...), WOp{Kind: WOpReattach}), ops[at:]...)
		wr.Ops = ops
		r.Probe("extensions_attached_twice")
	}
	tr := &msgTrack{onlyWrites: true, buffered: true, startSize: wr.Size0}
	ExecHistory(r, wr, seed, func(i int) { c06Step(r, wr, tr, i) })
}

type c13Msg struct {
	data       []byte
	compressed bool
	op         byte
}

// c13Stack writes messages through wsflate.Writer -> wsutil.Writer (with the
// message state attached) and reads them back through wsutil.Reader (with its
// own message state) -> wsflate.Reader.
func c13Stack(r *eng.Run) {
	r.SetEntry("writer-stack->reader-stack")
	client := r.T.Bool(sim.LSide) // the writing side
	wst := ws.StateServerSide | ws.StateExtended
	rst := ws.StateClientSide | ws.StateExtended
	recvSide := ref.Client
	if client {
		wst = ws.StateClientSide | ws.StateExtended
		rst = ws.StateServerSide | ws.StateExtended
		recvSide = ref.Server
	}
	size := []int{1, 2, 5, 16, 64, 125, 126, 300, 4096}[r.T.Int(sim.LSize, 9)]
	level := r.T.Range(sim.LCfg, 1, 9)
	nmsg := 1 + r.T.Int(sim.LNMsg, 4)
	bytewise := r.T.Chance(sim.LHist, 1, 6) // byte-sized writes into a 1-2 byte buffer: hundreds of fragments
	if bytewise {
		size = 1 + r.T.Int(sim.LSize, 2)
		nmsg = 1 + r.T.Int(sim.LNMsg, 2)
	}
	var msgs []c13Msg
	for i := 0; i < nmsg; i++ {
		m := c13Msg{compressed: r.T.Int(sim.LCfg, 3) != 0, op: ref.OpBinary}
		if r.T.Bool(sim.LOp) {
			m.op = ref.OpText // only written with ResetOp; otherwise the writer's own opcode applies
		}
		n := []int{0, 1, 10, 100, 700, 5000}[r.T.Int(sim.LLen, 6)]
		if bytewise {
			n = 300 + r.T.Int(sim.LLen, 500)
		}
		m.data = make([]byte, n)
		sim.Fill(m.data, r.T.U32(sim.LPaySeed), r.T.Int(sim.LPayKind, 4))
		msgs = append(msgs, m)
	}
	wire := NewPipe(r, nil)
	var sms wsflate.MessageState
	ww := wsutil.NewWriterSize(wire, wst, ws.OpBinary, size)
	// The application's own list of extensions, spread into SetExtensions
	// every time (the library is handed the very slice).
	exts := []wsutil.SendExtension{&sms}
	if r.T.Chance(sim.LCfg, 1, 3) {
		// Attached through the package's function adapter, as a method value
		// taken before the first message is marked.
		exts = []wsutil.SendExtension{wsutil.SendExtensionFunc(sms.SetBits)}
		r.Probe("send_state_through_the_function_adapter")
	}
	ext0 := exts[0]
	ww.SetExtensions(exts...)
	// A gap with a hundred and more control frames in it (legal; a reader
	// that reports "nothing read, no error" per control frame meets the limit
	// buffered readers put on such answers).
	manyPings := r.T.Chance(sim.LCtrl, 1, 24)
	// The writer re-armed for every message (Reset detaches the extensions).
	perMsgReset := r.T.Chance(sim.LHist, 1, 4)
	if r.T.Chance(sim.LHist, 1, 6) {
		// An earlier life of the same writer: a compressed message that was
		// given up after a fragment had gone out (to another destination),
		// then Reset, which detaches the extensions; they are attached again.
		old := NewPipe(r, nil)
		ww.Reset(old, wst, ws.OpBinary)
		ww.SetExtensions(exts...)
		sms.SetCompressed(true)
		ww.Write(patBytes(77, 0, 1+r.T.Int(sim.LLen, 2*size+2)))
		ww.FlushFragment()
		ww.Write(patBytes(78, 0, r.T.Int(sim.LLen, size+1)))
		ww.Reset(wire, wst, ws.OpBinary)
		ww.SetExtensions(exts...)
		r.Probe("writer_reset_after_abandoned_fragmented_message")
	}
	closeStyle := r.T.Chance(sim.LHist, 1, 3) // compressed messages are ended with Close, as the package's example server does
	resetOp := r.T.Chance(sim.LHist, 1, 3)    // the application announces every message with ResetOp (keeps extensions, as documented)
	fw := wsflate.NewWriter(nil, flateCtor(level))
	type ctrlAt struct {
		afterFrames int
		payload     []byte
	}
	var pings [][]byte
	sendPing := func() {
		// A control frame between fragments, written straight to the transport.
		pl := patBytes(uint32(len(pings)+1), 0, r.T.Int(sim.LCtrlLen, 20))
		f := ws.NewPingFrame(append([]byte(nil), pl...))
		if client {
			f = ws.MaskFrameInPlace(f)
		}
		if err := ws.WriteFrame(wire, f); err != nil {
			r.Internalf("WriteFrame: %v", err)
		}
		pings = append(pings, pl)
	}
	for mi, m := range msgs {
		if perMsgReset && mi > 0 {
			ww.Reset(wire, wst, ws.OpBinary)
			if len(exts) != 1 || !sameExt(exts[0], ext0) {
				r.FailProp("C17", "caller_slice_modified", "Writer.Reset changed the slice of extensions the application had spread into SetExtensions")
			}
			ww.SetExtensions(exts...)
			r.Probe("writer_reset_and_extensions_reattached_per_message")
		}
		if resetOp {
			ww.ResetOp(ws.OpCode(m.op))
			r.Probe("message_announced_with_ResetOp")
		}
		sms.SetCompressed(m.compressed)
		var dst io.Writer = ww
		if m.compressed {
			fw.Reset(ww)
			dst = fw
		}
		pos := 0
		for pos < len(m.data) {
			k := 1 + r.T.Int(sim.LSeg, len(m.data)-pos)
			if bytewise {
				k = 1
			}
			if _, err := dst.Write(m.data[pos : pos+k]); err != nil {
				r.Failf("unexpected_error", "write: %v", err)
			}
			pos += k
			if !bytewise && r.T.Chance(sim.LCtrl, 1, 4) {
				// Only between whole frames: push what is buffered out first.
				if m.compressed {
					if err := fw.Flush(); err != nil {
						r.Failf("unexpected_error", "wsflate.Writer.Flush: %v", err)
					}
				}
				if err := ww.FlushFragment(); err != nil {
					r.Failf("unexpected_error", "FlushFragment: %v", err)
				}
				if ww.Buffered() == 0 && len(wire.Out) > 0 && midMessageWire(wire.Out) {
					sendPing()
					// Now and then several control frames in one gap.
					for n := 0; n < 2 && r.T.Chance(sim.LCtrl, 1, 3); n++ {
						sendPing()
						r.Probe("several_control_frames_in_one_gap")
					}

				}
			}
		}
		if m.compressed && closeStyle {
			// (Close instead of Flush: the compressor ends its stream; the
			// writer is re-armed by the next Reset.)
			if err := fw.Close(); err != nil {
				r.Failf("unexpected_error", "wsflate.Writer.Close: %v", err)
			}
			r.Probe("compressed_message_ended_with_close")
		} else if m.compressed {
			if err := fw.Flush(); err != nil {
				r.Failf("unexpected_error", "wsflate.Writer.Flush: %v", err)
			}
		}
		if len(m.data) == 0 && !m.compressed {
			ww.Write(nil)
		}
		if err := ww.Flush(); err != nil {
			r.Failf("unexpected_error", "Writer.Flush: %v", err)
		}
	}
	// 1. On the wire.
	fs, rest, err := ref.DecodeAll(wire.Out)
	if err != nil || rest != 0 {
		r.Failf("partial_frame_at_call_boundary", "wire is not whole frames (rest=%d err=%v)", rest, err)
	}
	mi := -1
	first := true
	var onWire []bool // per message: first frame had RSV1
	for i, f := range fs {
		if ref.IsControl(f.Op) {
			if f.Rsv != 0 {
				r.Failf("rsv_on_control", "frame %d (%s) is a control frame with RSV bits", i, frameStr(f))
			}
			continue
		}
		if first {
			mi++
			onWire = append(onWire, f.Rsv&4 != 0)
			if mi < len(msgs) && (f.Rsv&4 != 0) != msgs[mi].compressed {
				r.Failf("rsv1_wrong_on_first_frame", "message %d compressed=%v but its first frame has rsv=%d", mi, msgs[mi].compressed, f.Rsv)
			}
			if f.Rsv&3 != 0 {
				r.Failf("rsv23_set", "frame %d has rsv=%d", i, f.Rsv)
			}
			wantOp := byte(ref.OpBinary)
			if resetOp && mi < len(msgs) {
				wantOp = msgs[mi].op
			}
			if f.Op != wantOp {
				r.Failf("wrong_opcode_on_first_frame", "message %d starts with %s, expected opcode %d", mi, frameStr(f), wantOp)
			}
		} else if f.Rsv != 0 {
			r.Failf("rsv1_on_continuation", "frame %d (%s) of message %d is a continuation with RSV bits", i, frameStr(f), mi)
		}
		first = f.Fin
	}
	if mi+1 != len(msgs) {
		r.Failf("message_count", "%d messages on the wire, %d written", mi+1, len(msgs))
	}
	nfrag := 0
	for _, f := range fs {
		if f.Op == ref.OpCont {
			nfrag++
		}
	}
	if nfrag > 0 {
		r.Probe("compressed_or_plain_message_fragmented")
	}
	if len(pings) > 0 {
		r.Probe("ctrl_between_fragments")
	}
	r.Note("C13 stack writer client=%v size=%d level=%d msgs=%d wire: %s", client, size, level, len(msgs), (&Stream{Frames: fs}).Describe())
	r.Res.Nontrivial = true

	// The peer (or whoever shares the connection with the writer) puts a
	// hundred and more control frames into one gap, wherever the writer
	// happened to cut the message.
	wireBytes := wire.Out
	if manyPings {
		var cand []int
		for j, f := range fs {
			if !ref.IsControl(f.Op) && !f.Fin {
				cand = append(cand, j)
			}
		}
		if len(cand) > 0 {
			j := cand[r.T.Int(sim.LCtrl, len(cand))]
			before := 0
			for _, f := range fs[:j+1] {
				if ref.IsControl(f.Op) {
					before++
				}
			}
			var extra [][]byte
			var enc []byte
			for n, tot := 0, 99+r.T.Int(sim.LCtrl, 60); n < tot; n++ {
				pl := patBytes(uint32(1000+n), 0, r.T.Int(sim.LCtrlLen, 4))
				pf := &ref.Frame{Fin: true, Op: ref.OpPing, Payload: pl}
				if client {
					pf.Masked, pf.Mask = true, drawMask(r)
				}
				enc = append(enc, ref.Encode([]*ref.Frame{pf})...)
				extra = append(extra, pl)
			}
			at := fs[j].End
			wireBytes = append(append(append([]byte(nil), wire.Out[:at]...), enc...), wire.Out[at:]...)
			pings = append(append(append([][]byte(nil), pings[:before]...), extra...), pings[before:]...)
			if fs2, rest2, err2 := ref.DecodeAll(wireBytes); err2 == nil && rest2 == 0 {
				fs = fs2
			} else {
				r.Internalf("wire with inserted pings does not decode: rest=%d %v", rest2, err2)
			}
			r.Probe("a_hundred_control_frames_in_one_gap")
		}
	}
	// 2. Read back through the reader stack under seeded segmentation.
	src := NewPipe(r, wireBytes)
	src.Marks = MarksOf(fs)
	src.SegMode = DrawSeg(r)
	src.EOFWithData = r.T.Chance(sim.LFault, 1, 4) // the last bytes arrive together with io.EOF
	src.ZeroReads = r.T.Chance(sim.LFault, 1, 8)
	var rms wsflate.MessageState
	var gotPings [][]byte
	curCompressed := false
	rd := &wsutil.Reader{Source: src, State: rst, Extensions: []wsutil.RecvExtension{&rms}}
	if len(wireBytes)%3 == 0 {
		// The state attached through the package's function adapter.
		rd.Extensions = []wsutil.RecvExtension{wsutil.RecvExtensionFunc(rms.UnsetBits)}
		r.Probe("message_state_through_the_function_adapter")
	}
	if r.T.Chance(sim.LCfg, 1, 3) {
		rd.Source = bufio.NewReaderSize(src, []int{16, 64, 4096}[r.T.Int(sim.LSize, 3)])
		r.Probe("reader_source_is_bufio_reader")
	}
	if r.T.Chance(sim.LCfg, 1, 4) {
		// The application skips the header check and did not mark the state
		// as extended: the attached extension must be consulted all the same.
		rd.SkipHeaderCheck = true
		rd.State = rst &^ ws.StateExtended
		r.Probe("reader_skips_header_check_without_extended_state")
	}
	rd.OnIntermediate = func(h ws.Header, pr io.Reader) error {
		b, err := io.ReadAll(pr)
		if err != nil {
			return err
		}
		if h.Rsv != 0 {
			r.Failf("rsv_not_cleared", "intermediate control header has rsv=%d", h.Rsv)
		}
		if rms.IsCompressed() != curCompressed {
			r.Failf("state_disturbed_by_control", "IsCompressed() changed from %v to %v at a control frame between fragments", curCompressed, rms.IsCompressed())
		}
		gotPings = append(gotPings, b)
		return nil
	}
	fr := wsflate.NewReader(nil, drawDtor(r))
	buf := make([]byte, drawBuf(r))
	for i, m := range msgs {
		h, err := rd.NextFrame()
		if err != nil {
			r.Failf("reader_error", "NextFrame for message %d: %v", i, err)
		}
		if h.Rsv != 0 {
			r.Failf("rsv_not_cleared", "header handed to the application for message %d has rsv=%d", i, h.Rsv)
		}
		if rms.IsCompressed() != onWire[i] {
			r.Failf("state_mismatch", "message %d: IsCompressed()=%v, first frame RSV1=%v", i, rms.IsCompressed(), onWire[i])
		}
		curCompressed = rms.IsCompressed()
		var in io.Reader = rd
		if rms.IsCompressed() {
			fr.Reset(rd)
			in = fr
		}
		var got []byte
		for {
			n, err := in.Read(buf)
			got = append(got, buf[:n]...)
			if err == io.EOF {
				break
			}
			if err != nil {
				r.Failf("reader_error", "reading message %d (compressed=%v): %v after %d bytes", i, m.compressed, err, len(got))
			}
			if rms.IsCompressed() != curCompressed {
				r.Failf("state_disturbed_by_control", "IsCompressed() changed while message %d was being read", i)
			}
		}
		if !bytes.Equal(got, m.data) {
			r.Failf("roundtrip_mismatch", "message %d (compressed=%v, %d bytes) read back as %d bytes%s", i, m.compressed, len(m.data), len(got), firstDiff(got, m.data))
		}
		// The inflater stops at the end of the DEFLATE stream; whatever the
		// message still holds on the wire is drained like an application would.
		if rms.IsCompressed() {
			if _, err := io.Copy(io.Discard, rd); err != nil && err != wsutil.ErrNoFrameAdvance {
				r.Failf("reader_error", "draining message %d: %v", i, err)
			}
		}
	}
	if _, err := rd.NextFrame(); err != io.EOF {
		r.Failf("reader_error", "after the last message NextFrame returned %v", err)
	}
	if len(gotPings) != len(pings) {
		r.Failf("control_lost", "%d pings written between fragments, %d handed to OnIntermediate", len(pings), len(gotPings))
	}
	for i := range pings {
		if !bytes.Equal(pings[i], gotPings[i]) {
			r.Failf("control_lost", "ping %d payload differs", i)
		}
	}
	_ = recvSide
}

// rsv2Recv is an application receive extension that owns RSV2.
type rsv2Recv struct{}

func (rsv2Recv) UnsetBits(h ws.Header) (ws.Header, error) {
	h.Rsv &^= 2
	return h, nil
}

// midMessageWire reports whether the bytes sent so far end inside a message.
func midMessageWire(out []byte) bool {
	fs, rest, err := ref.DecodeAll(out)
	if err != nil || rest != 0 {
		return false
	}
	open := false
	for _, f := range fs {
		if !ref.IsControl(f.Op) {
			open = !f.Fin
		}
	}
	return open
}

// c13Scripted: a scripted peer sends every RSV pattern on every frame kind.
func c13Scripted(r *eng.Run) {
	r.SetEntry("Reader+MessageState/scripted")
	side := ref.Side(r.T.Int(sim.LSide, 2))
	mk := func(op byte, fin bool, rsv byte, n int) *ref.Frame {
		f := &ref.Frame{Op: op, Fin: fin, Rsv: rsv, Payload: patBytes(uint32(op)+1, 0, n)}
		if side == ref.Server {
			f.Masked, f.Mask = true, drawMask(r)
		}
		return f
	}
	// message 1: first frame with rsv a, optional ping with rsv b, continuation with rsv c
	a := byte(r.T.Int(sim.LMisc, 8))
	b := byte(r.T.Int(sim.LMisc, 8))
	c := byte(r.T.Int(sim.LMisc, 8))
	withPing := r.T.Bool(sim.LCtrl)
	frag := r.T.Bool(sim.LNFrag)
	var frames []*ref.Frame
	nested := -1
	frames = append(frames, mk(ref.OpBinary, !frag, a, r.T.Int(sim.LLen, 20)))
	if frag {
		if withPing {
			frames = append(frames, mk(ref.OpPing, true, b, r.T.Int(sim.LLen, 10)))
			if r.T.Chance(sim.LCtrl, 1, 3) {
				// A second control frame in the same gap (no reserved bits).
				frames = append(frames, mk(ref.OpPong, true, 0, r.T.Int(sim.LLen, 10)))
				r.Probe("several_control_frames_in_one_gap")
			}
		}
		frames = append(frames, mk(ref.OpCont, true, c, r.T.Int(sim.LLen, 20)))
		if r.T.Chance(sim.LFault, 1, 6) {
			// Instead of the continuation a new data frame (with whatever
			// reserved bits): RSV1 belongs to the first frame of a message only,
			// a second "first frame" inside the open message is refused.
			nested = len(frames) - 1
			frames[nested].Op = []byte{ref.OpText, ref.OpBinary}[r.T.Int(sim.LOp, 2)]
			frames[nested].Fin = r.T.Bool(sim.LFault)
			r.Probe("data_frame_with_rsv_inside_open_message")
		}
	} else if withPing {
		frames = append(frames, mk(ref.OpPing, true, b, r.T.Int(sim.LLen, 10)))
	}
	// then a plain second message to see that the state follows.
	d := byte(r.T.Int(sim.LMisc, 8))
	frames = append(frames, mk(ref.OpText, true, d, 3))
	wire := ref.Encode(frames)
	p := NewPipe(r, wire)
	p.Marks = MarksOf(frames)
	p.SegMode = DrawSeg(r)
	st := sideState(side) | ws.StateExtended
	var ms wsflate.MessageState
	rd := &wsutil.Reader{Source: p, State: st, Extensions: []wsutil.RecvExtension{&ms}}
	if len(wire)%3 == 0 {
		rd.Extensions = []wsutil.RecvExtension{wsutil.RecvExtensionFunc(ms.UnsetBits)}
		r.Probe("message_state_through_the_function_adapter")
	}
	// A second receive extension of the application that owns RSV2 (clears
	// it), chained after or before the message state.
	other := []int{0, 0, 1, 2}[r.T.Int(sim.LCfg, 4)]
	var clear2 byte
	switch other {
	case 1:
		rd.Extensions = []wsutil.RecvExtension{&ms, rsv2Recv{}}
	case 2:
		rd.Extensions = []wsutil.RecvExtension{wsutil.RecvExtensionFunc(rsv2Recv{}.UnsetBits), &ms} // (through the function adapter)
	}
	if other != 0 {
		clear2 = 2
		r.Probe("two_receive_extensions_chained")
	}
	if r.T.Chance(sim.LCfg, 1, 3) {
		// The connection is read through the application's bufio.Reader:
		// later headers are usually buffered already when they are parsed.
		rd.Source = bufio.NewReaderSize(p, []int{16, 64, 4096}[r.T.Int(sim.LSize, 3)])
		r.Probe("reader_source_is_bufio_reader")
	}
	if r.T.Chance(sim.LCfg, 1, 4) && nested < 0 {
		rd.SkipHeaderCheck = true
		rd.State = sideState(side)
		r.Probe("reader_skips_header_check_without_extended_state")
	}
	var interHdr []ws.Header
	noHandler := r.T.Chance(sim.LCfg, 1, 3) // an application that lets the Reader drop control frames between fragments
	if !noHandler {
		rd.OnIntermediate = func(h ws.Header, pr io.Reader) error {
			interHdr = append(interHdr, h)
			_, err := io.Copy(io.Discard, pr)
			return err
		}
	} else {
		r.Probe("scripted_reader_without_intermediate_handler")
	}
	r.Note("C13 scripted side=%d seg=%d stream %s", side, p.SegMode, (&Stream{Frames: frames}).Describe())
	r.Res.Nontrivial = true
	// Expected: the first frame whose kind is control or continuation and has
	// RSV1 is a protocol error; everything before is delivered.
	badIdx := -1
	for i, f := range frames {
		if (ref.IsControl(f.Op) || f.Op == ref.OpCont) && f.Rsv&4 != 0 {
			badIdx = i
			break
		}
		if i == nested {
			badIdx = i
			break
		}
	}
	// The stateless helpers decide the same per header.
	for i, f := range frames {
		h := hdrOf(f)
		firstData := !ref.IsControl(f.Op) && f.Op != ref.OpCont
		r1 := f.Rsv&4 != 0
		got, err := wsflate.IsCompressed(h)
		uh, was, uerr := wsflate.UnsetBit(h)
		switch {
		case r1 && !firstData:
			if err == nil || uerr == nil {
				r.Failf("rsv1_not_rejected", "frame %d (%s): IsCompressed/UnsetBit accept RSV1 on a control/continuation frame (%v, %v)", i, frameStr(f), err, uerr)
			}
		default:
			wantH := h
			wantH.Rsv &^= 4
			if err != nil || uerr != nil || got != r1 || was != r1 || uh != wantH {
				r.Failf("helper_mismatch", "frame %d (%s): IsCompressed=%v,%v UnsetBit=%+v,%v,%v; expected compressed=%v and RSV1 cleared only", i, frameStr(f), got, err, uh, was, uerr, r1)
			}
		}
		sh, serr := wsflate.SetBit(h)
		switch {
		case r1:
			if serr == nil {
				r.Failf("helper_mismatch", "frame %d (%s): SetBit on a header that already has RSV1 returned no error", i, frameStr(f))
			}
		case firstData:
			wantH := h
			wantH.Rsv |= 4
			if serr != nil || sh != wantH {
				r.Failf("helper_mismatch", "frame %d (%s): SetBit=%+v,%v; expected RSV1 set", i, frameStr(f), sh, serr)
			}
		default:
			if serr != nil || sh != h {
				r.Failf("helper_mismatch", "frame %d (%s): SetBit changed a control/continuation header or failed (%+v, %v)", i, frameStr(f), sh, serr)
			}
		}
	}
	idx := 0 // next frame NextFrame will parse at top level
	buf := make([]byte, 16)
	for idx < len(frames) {
		f := frames[idx]
		h, err := rd.NextFrame()
		if idx == badIdx {
			if !isRejection(err) {
				r.Failf("rsv1_not_rejected", "frame %d (%s): RSV1 on a control/continuation frame gave %v, expected a protocol error", idx, frameStr(f), err)
			}
			return
		}
		if err != nil {
			r.Failf("reader_error", "frame %d (%s): %v", idx, frameStr(f), err)
		}
		wantRsv := f.Rsv &^ clear2
		if !ref.IsControl(f.Op) && f.Op != ref.OpCont {
			wantRsv &^= 4
			if ms.IsCompressed() != (f.Rsv&4 != 0) {
				r.Failf("state_mismatch", "frame %d (%s): IsCompressed()=%v", idx, frameStr(f), ms.IsCompressed())
			}
		}
		if h.Rsv != wantRsv {
			r.Failf("rsv_not_cleared", "frame %d (%s): header handed over has rsv=%d, expected %d (RSV1 cleared, RSV2/3 untouched)", idx, frameStr(f), h.Rsv, wantRsv)
		}
		compressedNow := ms.IsCompressed()
		idx++
		// Read the unit to its end; continuation / intermediate frames are
		// parsed inside Read.
		// ... or skipped with Discard, which parses the same frames.
		discard := r.T.Chance(sim.LAct, 1, 3)
		if discard {
			r.Probe("scripted_unit_discarded")
		}
		for {
			var err error
			if discard {
				if err = rd.Discard(); err == nil {
					break
				}
			} else {
				_, err = rd.Read(buf)
			}
			if err == io.EOF {
				break
			}
			if err != nil {
				// The failure must be the bad frame, which must be inside this message.
				if badIdx >= idx && badIdx < len(frames)-1 {
					if !isRejection(err) {
						r.Failf("rsv1_not_rejected", "frame %d (%s): RSV1 on a control/continuation frame gave %v, expected a protocol error", badIdx, frameStr(frames[badIdx]), err)
					}
					return
				}
				r.Failf("reader_error", "reading unit starting at frame %d: %v", idx-1, err)
			}
			if ms.IsCompressed() != compressedNow {
				r.Failf("state_disturbed_by_control", "IsCompressed() changed inside a message")
			}
		}
		// Skip the frames that belonged to this unit.
		if !f.Fin {
			for idx < len(frames) && (ref.IsControl(frames[idx].Op) || frames[idx].Op == ref.OpCont) {
				last := frames[idx].Op == ref.OpCont && frames[idx].Fin
				idx++
				if last {
					break
				}
			}
		}
		if badIdx >= 0 && badIdx < idx {
			r.Failf("rsv1_not_rejected", "frame %d (%s) with RSV1 on a control/continuation frame was accepted", badIdx, frameStr(frames[badIdx]))
		}
	}
	var interSent []byte // reserved bits of the control frames between the fragments, in order
	if frag {
		for _, f := range frames[1:] {
			if !ref.IsControl(f.Op) {
				break
			}
			interSent = append(interSent, f.Rsv)
		}
	}
	if !noHandler && badIdx < 0 && len(interHdr) != len(interSent) {
		r.Failf("wrong_unit", "OnIntermediate was called %d times, %d control frames lie between the fragments", len(interHdr), len(interSent))
	}
	for i, h := range interHdr {
		if i >= len(interSent) {
			r.Failf("wrong_unit", "OnIntermediate was called %d times, %d control frames lie between the fragments", len(interHdr), len(interSent))
		}
		want := interSent[i] &^ clear2
		if h.Rsv != want {
			r.Failf("rsv_not_cleared", "intermediate control header rsv=%d, sent %d (RSV2/3 must be untouched)", h.Rsv, want)
		}
	}
	_ = fmt.Sprint
}

// c13FrameHelpers: the frame-level way of the package documentation
// (ws.ReadFrame, then wsflate.IsCompressed / DecompressFrame on every frame,
// or UnsetBit by hand): the header handed on has RSV1 cleared and the other
// bits untouched - also for a frame without payload - and RSV1 on a control or
// continuation frame is refused.
func c13FrameHelpers(r *eng.Run) {
	r.SetEntry("frame-helpers")
	r.Res.Nontrivial = true
	op := []ws.OpCode{ws.OpText, ws.OpBinary, ws.OpContinuation, ws.OpPing, ws.OpPong, ws.OpClose}[r.T.Int(sim.LOp, 6)]
	other := byte(r.T.Int(sim.LMisc, 4)) // RSV2/RSV3 of another extension
	n := []int{0, 0, 1, 20}[r.T.Int(sim.LLen, 4)]
	var payload []byte
	if n > 0 {
		p, err := wsflate.DefaultHelper.Compress(patBytes(r.T.U32(sim.LPaySeed), 0, n))
		if err != nil {
			r.Internalf("Compress: %v", err)
		}
		payload = p
	}
	h := ws.Header{Fin: true, Rsv: 4 | other, OpCode: op, Length: int64(len(payload))}
	if r.T.Bool(sim.LMask) {
		h.Masked, h.Mask = true, drawMask(r)
	}
	f := ws.Frame{Header: h, Payload: payload}
	r.Note("C13 frame helpers: op=%d rsv=%d payload=%d", op, h.Rsv, len(payload))
	first := op == ws.OpText || op == ws.OpBinary
	if got, err := wsflate.IsCompressed(h); first && (err != nil || !got) || !first && err == nil {
		r.Failf("rsv1_not_rejected", "IsCompressed(%+v) = %v, %v", h, got, err)
	}
	hh, wasSet, err := wsflate.UnsetBit(h)
	want := h
	want.Rsv = other
	if first && (err != nil || hh != want || !wasSet) {
		r.Failf("rsv_not_cleared", "UnsetBit(%+v) = %+v, %v, %v; expected %+v, true", h, hh, wasSet, err, want)
	}
	if !first && err == nil {
		r.Failf("rsv1_not_rejected", "UnsetBit accepted RSV1 on a frame with opcode %d", op)
	}
	var df ws.Frame
	if r.T.Bool(sim.LCfg) {
		df, err = wsflate.DecompressFrame(f)
	} else {
		var buf bytes.Buffer
		df, err = wsflate.DecompressFrameBuffer(&buf, f)
	}
	if !first {
		if err == nil {
			r.Failf("rsv1_not_rejected", "DecompressFrame accepted RSV1 on a frame with opcode %d (%d payload bytes)", op, len(payload))
		}
		r.Probe("frame_helper_refuses_rsv1_on_control_or_continuation")
		return
	}
	if err != nil {
		r.Failf("unexpected_error", "DecompressFrame of a compressed first frame (%d payload bytes): %v", len(payload), err)
	}
	if df.Header.Rsv != other || df.Header.OpCode != op || !df.Header.Fin || df.Header.Masked != h.Masked || df.Header.Mask != h.Mask {
		r.Failf("rsv_not_cleared", "DecompressFrame handed on the header %+v for %+v (%d payload bytes): RSV1 must be cleared, the rest untouched", df.Header, h, len(payload))
	}
	if len(payload) == 0 {
		r.Probe("frame_helper_on_a_compressed_frame_without_payload")
	}
}
