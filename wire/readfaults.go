package wire

import (
	"bytes"
	"errors"
	"io"
	"unicode/utf8"

	"github.com/gobwas/ws"
	"github.com/gobwas/ws/wsflate"
	"github.com/gobwas/ws/wsutil"

	"verif/eng"
	"verif/ref"
	"verif/sim"
)

// ---------------------------------------------------------------------------
// C05: rejection at the first offending frame.

func isRejection(err error) bool {
	if errors.Is(err, wsutil.ErrFrameTooLarge) || errors.Is(err, ws.ErrHeaderLengthMSB) {
		return true
	}
	var pe ws.ProtocolError
	return errors.As(err, &pe)
}

// openAt describes the reader's position in stream s just before frame index k.
type openAt struct {
	msg      *Msg   // message open (fragmented) at that point, nil if none
	openData []byte // concatenation of its fragments before k
}

func stateBefore(s *Stream, k int) openAt {
	if k >= len(s.Frames) {
		return openAt{}
	}
	at := s.Frames[k].Off
	for _, it := range s.Items {
		m := it.Msg
		if m == nil || !(m.First.Off < at && at <= m.Last.Off) {
			continue
		}
		o := openAt{msg: m}
		for _, f := range m.Frames {
			if f.Off < at {
				o.openData = append(o.openData, f.Payload...)
			}
		}
		return o
	}
	return openAt{}
}

func C05(r *eng.Run) {
	cfg := drawReadCfg(r, []int{AppReader, AppReader, AppNextReader, AppReadMessage, AppReadData})
	r.SetEntry(cfg.Name())
	s := GenStream(r, StreamCfg{Recv: cfg.Side, MaxMsgs: 3, TextValid: true, Budget: 8 * 1024, Rsv23: cfg.Extended})
	// Where the offending frame goes: before frame k (k == len: after the end).
	k := r.T.Int(sim.LFaultAt, len(s.Frames)+1)
	st := stateBefore(s, k)
	fragmented := st.msg != nil
	recvState := ref.RecvState{Side: cfg.Side, Fragmented: fragmented, Extended: cfg.Extended}

	bad := &ref.Frame{Fin: true, Op: ref.OpBinary, Masked: cfg.Side == ref.Server}
	if fragmented {
		bad.Op = ref.OpCont
		bad.Fin = r.T.Bool(sim.LFault)
	}
	if bad.Masked {
		bad.Mask = drawMask(r)
	}
	payLen := r.T.Int(sim.LLen, 40)
	kinds := []string{"reserved", "ctrl_long", "ctrl_nonfinal", "mask", "nested_or_stray"}
	if !cfg.Extended {
		kinds = append(kinds, "rsv")
	}
	if cfg.App == AppReader {
		kinds = append(kinds, "oversize", "oversize", "oversize_ctrl", "oversize_msb")
	}
	kind := kinds[r.T.Int(sim.LFault, len(kinds))]
	switch kind {
	case "reserved":
		ops := []byte{3, 4, 5, 6, 7, 0xB, 0xC, 0xD, 0xE, 0xF}
		bad.Op = ops[r.T.Int(sim.LOp, len(ops))]
		bad.Fin = true
		if bad.Op >= 0xB {
			payLen = minInt(payLen, 20)
		}
	case "ctrl_long":
		bad.Op = []byte{ref.OpPing, ref.OpPong, ref.OpClose}[r.T.Int(sim.LOp, 3)]
		bad.Fin = true
		payLen = 126 + r.T.Int(sim.LLen, 80)
	case "ctrl_nonfinal":
		bad.Op = []byte{ref.OpPing, ref.OpPong, ref.OpClose}[r.T.Int(sim.LOp, 3)]
		bad.Fin = false
	case "rsv":
		bad.Rsv = byte(1 + r.T.Int(sim.LMisc, 7))
		if r.T.Bool(sim.LOp) {
			bad.Op, bad.Fin = ref.OpPing, true
		}
	case "mask":
		bad.Masked = !bad.Masked
		if bad.Masked {
			bad.Mask = drawMask(r)
		}
		if r.T.Bool(sim.LOp) {
			bad.Op, bad.Fin = ref.OpPing, true
		}
	case "nested_or_stray":
		if fragmented {
			bad.Op = []byte{ref.OpText, ref.OpBinary}[r.T.Int(sim.LOp, 2)]
		} else {
			bad.Op = ref.OpCont
		}
		bad.Fin = r.T.Bool(sim.LFault)
	case "oversize_ctrl":
		// A control frame (possibly between fragments) above a limit < 125.
		var maxBefore int64
		for _, f := range s.Frames[:k] {
			if int64(len(f.Payload)) > maxBefore {
				maxBefore = int64(len(f.Payload))
			}
		}
		if maxBefore >= 124 {
			kind = "ctrl_nonfinal"
			bad.Op, bad.Fin = ref.OpPing, false
			break
		}
		lo := maxBefore
		if lo == 0 {
			lo = 1
		}
		payLen = int(lo) + 1 + r.T.Int(sim.LLen, 125-int(lo))
		cfg.MaxFrameSize = lo + int64(r.T.Int(sim.LSize, payLen-int(lo)))
		bad.Op, bad.Fin = []byte{ref.OpPing, ref.OpPong}[r.T.Int(sim.LOp, 2)], true
	case "oversize_msb":
		// A frame announcing 2^63+N bytes (64-bit form, top bit set) with a
		// limit that N alone would pass.
		var maxBefore int64
		for _, f := range s.Frames[:k] {
			if int64(len(f.Payload)) > maxBefore {
				maxBefore = int64(len(f.Payload))
			}
		}
		cfg.MaxFrameSize = maxBefore + 1 + int64(r.T.Int(sim.LSize, 64))
		payLen = r.T.Int(sim.LLen, int(minInt(int(cfg.MaxFrameSize), 60))+1)
		bad.LenMSB = true
	case "oversize":
		var maxBefore int64
		for _, f := range s.Frames[:k] {
			if int64(len(f.Payload)) > maxBefore {
				maxBefore = int64(len(f.Payload))
			}
		}
		lo := maxBefore // MaxFrameSize in [lo, payLen-1], and > 0 to be active
		if lo == 0 {
			lo = 1
		}
		payLen = int(lo) + 1 + r.T.Int(sim.LLen, 50)
		switch r.T.Int(sim.LLen, 12) {
		case 0:
			// Announced in the 16-bit form.
			payLen = maxInt(payLen, 126+r.T.Int(sim.LLen, 40))
			r.Probe("oversize_in_16_bit_length_form")
		case 1:
			// Announced in the 64-bit form, the limit just below or far below.
			payLen = maxInt(payLen, 65536+r.T.Int(sim.LLen, 40))
			if r.T.Bool(sim.LSize) && lo < 65530 {
				lo = 65530
			}
			r.Probe("oversize_in_64_bit_length_form")
		}
		cfg.MaxFrameSize = lo + int64(r.T.Int(sim.LSize, payLen-int(lo)))
		if r.T.Bool(sim.LOp) && !fragmented {
			bad.Op = ref.OpText
		}
	}
	bad.Payload = make([]byte, payLen)
	for i := range bad.Payload {
		bad.Payload[i] = 0xEE // marker bytes: must never be delivered
	}
	broken := ref.Broken(recvState, bad.Op, bad.Fin, bad.Rsv, bad.Masked, int64(payLen))
	if kind == "oversize" || kind == "oversize_ctrl" || kind == "oversize_msb" {
		broken = append(broken, "max_frame_size")
	}
	if cfg.Extended {
		// RSV2/RSV3 are legal here: they must not make the reader lenient
		// about the rule that is actually broken.
		bad.Rsv = byte(r.T.Int(sim.LMisc, 4))
		if bad.Rsv != 0 {
			r.Probe("violation_with_rsv_bits_in_extended_state")
		}
	}
	if len(broken) == 0 {
		r.Internalf("C05 generator produced a frame that breaks no rule: %s in state %+v", frameStr(bad), recvState)
	}
	// Wire: valid prefix, the offending frame, then the rest of the valid stream.
	wire := append([]byte(nil), s.Wire[:offAt(s, k)]...)
	badOff := len(wire)
	wire = ref.AppendFrame(wire, bad)
	lastOnWire := r.T.Chance(sim.LFault, 1, 4) // nothing follows the offending frame
	if !lastOnWire {
		wire = append(wire, s.Wire[offAt(s, k):]...)
	}
	marks := MarksOf(s.Frames[:k])
	marks = append(marks, Mark{bad.Off, 'F'}, Mark{bad.HdrEnd, 'H'}, Mark{bad.End, 'E'})

	if cfg.App == AppReader && !cfg.Extended && r.T.Chance(sim.LCfg, 1, 4) {
		// An application that attaches its receive extension although the
		// state does not say an extension was negotiated: reserved bits are
		// still a violation.
		cfg.Exts = []wsutil.RecvExtension{&wsflate.MessageState{}}
		r.Probe("receive_extension_attached_in_non_extended_state")
	}
	if cfg.App == AppReader {
		cfg.SkipEmpty = r.T.Bool(sim.LCfg)
		cfg.ProbeAfterError = !fragmented && r.T.Bool(sim.LCfg)
		cfg.InterErr = cfg.OnInter == 1 && !cfg.PerFrame && !cfg.CopyDrain && r.T.Chance(sim.LCfg, 1, 3)
		if (kind == "oversize" || kind == "oversize_ctrl" || kind == "oversize_msb") && r.T.Chance(sim.LCfg, 1, 3) {
			// The size limit is independent of the header check.
			cfg.SkipCheck = true
			r.Probe("oversize_with_header_check_skipped")
		}
	}
	p := NewPipe(r, wire)
	p.Marks = marks
	p.SegMode = DrawSeg(r)
	p.EOFWithData = r.T.Chance(sim.LFault, 1, 3) // the last bytes arrive together with io.EOF
	p.ZeroReads = r.T.Chance(sim.LFault, 1, 8)
	cfg.ZeroBuf = (cfg.App == AppReader || cfg.App == AppNextReader) && r.T.Chance(sim.LFault, 1, 8)
	if cfg.App == AppReader && cfg.Bufio == 0 && k > 0 && r.T.Chance(sim.LFault, 1, 5) {
		// One temporary read error somewhere in the valid prefix (inside a
		// data payload or exactly between two fragments); the application
		// retries. What follows is judged as before.
		cfg.Retry, cfg.NoDiscard, cfg.PerFrame = true, true, false
		var inPay bool
		p.Transient, inPay = TransientIn(r, s.Frames[:k])
		// ... and now and then the failing Read has taken some bytes already.
		p.TransientData = inPay && r.T.Chance(sim.LFault, 1, 3)
	}
	if lastOnWire && p.EOFWithData && payLen == 0 {
		r.Probe("offending_header_ends_with_eof_in_same_read")
	}
	r.Probe("violation_" + kind)
	if fragmented {
		r.Probe("violation_while_fragmented")
	}
	r.Note("C05 %s side=%d seg=%d maxFrame=%d: valid prefix of %d frames [%s], then %s breaking %v", cfg.Name(), cfg.Side, p.SegMode,
		cfg.MaxFrameSize, k, (&Stream{Frames: s.Frames[:k]}).Describe(), frameStr(bad), broken)

	o := RunApp(r, p, cfg)

	want := Before(Model(s, cfg), badOff)
	CheckRecs(r, cfg, o, want)
	if got := o.Delivered(); len(got) > len(want) {
		g := got[len(want)]
		r.Failf("delivered_past_violation", "%s: unit %d (kind=%c op=%d, %d bytes) delivered although frame %d (%s) breaks %v",
			cfg.Name(), len(want), g.Kind, g.Op, len(g.Data), k, frameStr(bad), broken)
	}
	if o.Err == nil || !isRejection(o.Err) {
		r.Failf("not_rejected", "%s: frame %d (%s, breaks %v in state fragmented=%v) did not yield a protocol/size error: got %v from %s",
			cfg.Name(), k, frameStr(bad), broken, fragmented, o.Err, o.ErrAt)
	}
	if len(o.AfterErr) > 0 {
		r.Failf("delivered_past_violation", "%s: after NextFrame refused frame %d (%s, breaks %v) a further Read handed out %d bytes (%x...)", cfg.Name(), k, frameStr(bad), broken, len(o.AfterErr), head(o.AfterErr, 8))
	}
	if o.Open != nil {
		if len(o.Open.Data) > len(st.openData) || !bytes.Equal(o.Open.Data, st.openData[:len(o.Open.Data)]) {
			r.Failf("delivered_past_violation", "%s: %d bytes of the open message delivered, only %d precede the offending frame%s",
				cfg.Name(), len(o.Open.Data), len(st.openData), firstDiff(o.Open.Data, st.openData))
		}
	}
	if cfg.App == AppReadMessage && st.msg != nil {
		// "ReadMessage ... appends received message(s) ... and returns the
		// result of it and an error": the control frames that arrived between
		// the fragments before the offending frame come back with the error.
		var wantCtl [][]byte
		for _, f := range s.Frames[:k] {
			if f.Off > st.msg.First.Off && ref.IsControl(f.Op) {
				wantCtl = append(wantCtl, f.Payload)
			}
		}
		var gotCtl [][]byte
		for _, x := range o.Recs {
			if x.Failed && x.Kind == 'C' {
				gotCtl = append(gotCtl, x.Data)
			}
		}
		same := len(gotCtl) == len(wantCtl)
		for i := 0; same && i < len(wantCtl); i++ {
			same = bytes.Equal(gotCtl[i], wantCtl[i])
		}
		if !same {
			r.Failf("controls_before_violation_lost", "%s: %d control frame(s) arrived between the fragments before offending frame %d; the failing call returned %d of them (or other payloads)", cfg.Name(), len(wantCtl), k, len(gotCtl))
		}
		if len(wantCtl) > 0 {
			r.Probe("controls_returned_with_the_error")
		}
	}
	if cfg.App == AppReader && cfg.OnCont {
		CheckConts(r, cfg, o, &Stream{Frames: s.Frames[:k]}, badOff)
	}
	if cfg.App == AppReadData {
		CheckPongs(r, cfg, p, ExpectedReplies(&Stream{Frames: s.Frames[:k]}, badOff))
	}
}

func offAt(s *Stream, k int) int {
	if k >= len(s.Frames) {
		return len(s.Wire)
	}
	return s.Frames[k].Off
}

// ---------------------------------------------------------------------------
// C07: UTF-8 across every boundary.

var contBoundary = []byte{0x00, 0x7f, 0x80, 0x8f, 0x90, 0x9f, 0xa0, 0xbf, 0xc0, 0xff}

// drawAtom returns a short byte sequence from the structured cover.
func drawAtom(r *eng.Run, allowInvalid bool) []byte {
	if !allowInvalid {
		if r.T.Chance(sim.LUTF8, 1, 6) {
			// A run of ASCII (8..39 bytes): whatever follows starts at any
			// offset of a machine word.
			b := make([]byte, 8+r.T.Int(sim.LUTF8, 32))
			for i := range b {
				b[i] = byte('a' + i%26)
			}
			return b
		}
		ru := validRunes[r.T.Int(sim.LUTF8, len(validRunes))]
		b := make([]byte, utf8.RuneLen(ru))
		utf8.EncodeRune(b, ru)
		return b
	}
	switch r.T.Int(sim.LUTF8, 8) {
	case 0: // lone continuation / invalid single bytes
		return []byte{[]byte{0x80, 0xbf, 0xc0, 0xc1, 0xf5, 0xf8, 0xfe, 0xff, 0x9f, 0xa0}[r.T.Int(sim.LUTF8, 10)]}
	case 1: // overlongs
		return [][]byte{{0xc0, 0x80}, {0xc1, 0xbf}, {0xe0, 0x80, 0x80}, {0xe0, 0x9f, 0xbf}, {0xf0, 0x80, 0x80, 0x80}, {0xf0, 0x8f, 0xbf, 0xbf}}[r.T.Int(sim.LUTF8, 6)]
	case 2: // surrogates
		return [][]byte{{0xed, 0xa0, 0x80}, {0xed, 0xbf, 0xbf}, {0xed, 0xb0, 0x80}, {0xed, 0x9f, 0xbf}}[r.T.Int(sim.LUTF8, 4)] // last one is valid (U+D7FF)
	case 3: // above U+10FFFF and the top boundary
		return [][]byte{{0xf4, 0x90, 0x80, 0x80}, {0xf4, 0x8f, 0xbf, 0xbf}, {0xf5, 0x80, 0x80, 0x80}, {0xf7, 0xbf, 0xbf, 0xbf}, {0xf8, 0x88, 0x80, 0x80, 0x80}}[r.T.Int(sim.LUTF8, 5)]
	case 4: // truncated sequences
		return [][]byte{{0xc2}, {0xe2, 0x82}, {0xe2}, {0xf0, 0x9f, 0x98}, {0xf0, 0x9f}, {0xf0}}[r.T.Int(sim.LUTF8, 6)]
	case 5: // a sequence interrupted by a run of ASCII: lead (and part of its tail), 8-20 ASCII bytes, the rest
		seqs := [][]byte{{0xc3, 0xa9}, {0xe2, 0x82, 0xac}, {0xf0, 0x9f, 0x98, 0x80}}
		q := seqs[r.T.Int(sim.LUTF8, 3)]
		cut := 1 + r.T.Int(sim.LUTF8, len(q)-1)
		b := append([]byte(nil), q[:cut]...)
		for i, n := 0, 8+r.T.Int(sim.LUTF8, 13); i < n; i++ {
			b = append(b, byte('a'+i%26))
		}
		return append(b, q[cut:]...)
	default: // every lead byte x boundary continuation values
		lead := byte(0xc0 + r.T.Int(sim.LUTF8, 0x40))
		n := 1
		switch {
		case lead >= 0xf0:
			n = 3
		case lead >= 0xe0:
			n = 2
		}
		b := []byte{lead}
		for i := 0; i < n; i++ {
			b = append(b, contBoundary[r.T.Int(sim.LUTF8, len(contBoundary))])
		}
		return b
	}
}

// drawText builds a payload from atoms; roughly half are valid.
func drawText(r *eng.Run) []byte {
	var p []byte
	natoms := r.T.Int(sim.LLen, 12)
	invalidAt := -1
	if r.T.Bool(sim.LUTF8) && natoms > 0 {
		invalidAt = r.T.Int(sim.LUTF8, natoms)
		if r.T.Chance(sim.LUTF8, 1, 3) {
			invalidAt = natoms - 1 // the tail: truncation at the very end
		}
	}
	for i := 0; i < natoms; i++ {
		p = append(p, drawAtom(r, i == invalidAt)...)
		if r.T.Chance(sim.LUTF8, 1, 6) {
			pad := make([]byte, r.T.Int(sim.LLen, 200))
			FillUTF8(pad, r.T.U32(sim.LPaySeed))
			p = append(p, pad...)
		}
	}
	return p
}

// genTextStream builds a stream of text/binary messages from the UTF-8 cover,
// fragmenting at arbitrary byte positions.
func genTextStream(r *eng.Run, recv ref.Side) *Stream {
	s := &Stream{}
	budget := 1 << 20
	nmsg := 1 + r.T.Int(sim.LNMsg, 3)
	// Control frames outside the messages whose payload is no UTF-8 at all
	// (it need not be: only text messages are text).
	rawCtrl := func() {
		f := &ref.Frame{Fin: true, Op: []byte{ref.OpPing, ref.OpPong}[r.T.Int(sim.LCtrl, 2)],
			Payload: [][]byte{{0xff, 0xfe, 0x00, 0x80}, {0xc3}, {0xe2, 0x82}, {0x80, 'a'}, {0xed, 0xa0, 0x80}}[r.T.Int(sim.LCtrlLen, 5)]}
		if recv == ref.Server {
			f.Masked, f.Mask = true, drawMask(r)
		}
		s.Frames = append(s.Frames, f)
		s.Items = append(s.Items, Item{Ctrl: f})
		r.Probe("top_level_control_frame_that_is_no_utf8")
	}
	for i := 0; i < nmsg; i++ {
		if r.T.Chance(sim.LCtrl, 1, 6) {
			rawCtrl()
		}
		m := &Msg{Op: ref.OpText, Payload: drawText(r)}
		if r.T.Chance(sim.LOp, 1, 4) {
			m.Op = ref.OpBinary
		}
		nfrag := 1 + r.T.Int(sim.LNFrag, 4)
		cuts := []int{0}
		for k := 1; k < nfrag; k++ {
			cuts = append(cuts, r.T.Range(sim.LLen, cuts[len(cuts)-1], len(m.Payload)))
		}
		cuts = append(cuts, len(m.Payload))
		for k := 0; k < nfrag; k++ {
			f := &ref.Frame{Op: ref.OpCont, Fin: k == nfrag-1, Payload: m.Payload[cuts[k]:cuts[k+1]]}
			if k == 0 {
				f.Op, m.First = m.Op, f
			}
			if recv == ref.Server {
				f.Masked, f.Mask = true, drawMask(r)
			}
			s.Frames = append(s.Frames, f)
			m.Frames = append(m.Frames, f)
			m.Last = f
			if k < nfrag-1 {
				if c := cuts[k+1]; c > 0 && c < len(m.Payload) && !utf8.RuneStart(m.Payload[c]) {
					r.Probe("fragment_split_inside_utf8_seq")
				}
				if r.T.Chance(sim.LCtrl, 1, 3) {
					c := drawCtrl(r, StreamCfg{Recv: recv}, &budget)
					s.Frames = append(s.Frames, c)
					m.Inter = append(m.Inter, c)
				}
			}
		}
		s.Items = append(s.Items, Item{Msg: m})
	}
	if r.T.Chance(sim.LCtrl, 1, 6) {
		rawCtrl()
	}
	s.Wire = ref.Encode(s.Frames)
	return s
}

// incompleteOK reports whether tail (1..3 bytes) is a proper prefix of some
// well-formed UTF-8 sequence (Unicode Table 3-7).
func incompleteOK(t []byte) bool {
	if len(t) == 0 {
		return true
	}
	l := t[0]
	var need int
	lo, hi := byte(0x80), byte(0xbf)
	switch {
	case l >= 0xc2 && l <= 0xdf:
		need = 2
	case l == 0xe0:
		need, lo = 3, 0xa0
	case (l >= 0xe1 && l <= 0xec) || l == 0xee || l == 0xef:
		need = 3
	case l == 0xed:
		need, hi = 3, 0x9f
	case l == 0xf0:
		need, lo = 4, 0x90
	case l >= 0xf1 && l <= 0xf3:
		need = 4
	case l == 0xf4:
		need, hi = 4, 0x8f
	default:
		return false
	}
	if len(t) >= need {
		return false
	}
	for i := 1; i < len(t); i++ {
		a, b := byte(0x80), byte(0xbf)
		if i == 1 {
			a, b = lo, hi
		}
		if t[i] < a || t[i] > b {
			return false
		}
	}
	return true
}

// validPrefix reports whether b can still be extended to valid UTF-8.
func validPrefix(b []byte) bool {
	for t := 0; t <= 3 && t <= len(b); t++ {
		if utf8.Valid(b[:len(b)-t]) && incompleteOK(b[len(b)-t:]) {
			return true
		}
	}
	return false
}

func C07(r *eng.Run) {
	if r.T.Chance(sim.LEntry, 1, 4) {
		c07Standalone(r)
		return
	}
	cfg := drawReadCfg(r, []int{AppReader, AppReader, AppReadMessage, AppReadData})
	cfg.CheckUTF8, cfg.PerFrame = true, false
	// cfg.Extended stays as drawn: a negotiated extension (no RSV bits on these
	// frames) changes nothing about what is text.
	if cfg.Extended {
		r.Probe("utf8_check_in_extended_state")
	}
	cfg.OnCont = false
	if cfg.App == AppReader && r.T.Chance(sim.LCfg, 1, 4) {
		cfg.OnCont, cfg.OnContRead = true, true
	}
	if cfg.App == AppReadData && cfg.Variant == 3 {
		cfg.Variant = 2
	}
	r.SetEntry(cfg.Name())
	s := genTextStream(r, cfg.Side)
	// Valid text and binary messages may be abandoned half-read (Discard),
	// also in the middle of a multi-byte sequence; an invalid text message is
	// always read to its end (discarding is not delivering).
	cfg.MustRead = func(unit int) bool {
		if unit >= len(s.Items) {
			return true
		}
		m := s.Items[unit].Msg
		if m == nil {
			return true
		}
		return m.Op == ref.OpText && !utf8.Valid(m.Payload)
	}
	p := NewPipe(r, s.Wire)
	p.Marks = MarksOf(s.Frames)
	p.SegMode = DrawSeg(r)
	p.EOFWithData = r.T.Chance(sim.LFault, 1, 6)
	p.ZeroReads = r.T.Chance(sim.LFault, 1, 8)
	cfg.ZeroBuf = cfg.App == AppReader && r.T.Chance(sim.LFault, 1, 8)
	cfg.SkipEmpty = cfg.App == AppReader && r.T.Chance(sim.LCfg, 1, 3) // empty unfragmented messages are not read at all
	cfg.RereadAfterUTF8 = cfg.App == AppReader && r.T.Bool(sim.LCfg)
	cfg.SkipCheck = cfg.App == AppReader && r.T.Chance(sim.LCfg, 1, 6) // framing is valid: the header checks make no difference
	if cfg.App == AppReader && cfg.Bufio == 0 && !cfg.OnContRead && r.T.Chance(sim.LFault, 1, 6) {
		// One temporary read error inside the payload of a data frame; the
		// application reads every unit to its end and retries.
		cfg.Retry, cfg.NoDiscard, cfg.PerFrame = true, true, false
		var inPay bool
		p.Transient, inPay = TransientIn(r, s.Frames)
		// ... and now and then the failing Read has taken some bytes already.
		p.TransientData = inPay && r.T.Chance(sim.LFault, 1, 3)
	}
	if cfg.App == AppReader && !cfg.OnContRead && !cfg.Retry && r.T.Bool(sim.LCfg) {
		c07Tolerant(r, cfg, s, p)
		return
	}
	// First invalid text message, if any.
	var badMsg *Msg
	for _, it := range s.Items {
		if it.Msg != nil && it.Msg.Op == ref.OpText && !utf8.Valid(it.Msg.Payload) {
			badMsg = it.Msg
			break
		}
	}
	r.Note("C07 %s side=%d seg=%d stream: %s firstInvalid=%v", cfg.Name(), cfg.Side, p.SegMode, s.Describe(), badMsg != nil)
	for _, it := range s.Items {
		if it.Msg != nil && it.Msg.Op == ref.OpBinary && !utf8.Valid(it.Msg.Payload) && (badMsg == nil || it.Msg.First.Off < badMsg.First.Off) {
			r.Probe("binary_with_invalid_utf8")
		}
	}
	o := RunApp(r, p, cfg)
	model := Model(s, cfg)
	if badMsg == nil {
		r.Probe("all_valid")
		CheckRecs(r, cfg, o, model)
		if len(o.Delivered()) != len(model) || o.Err != io.EOF || o.Open != nil {
			r.Failf("valid_text_rejected", "%s: all text valid, yet the stream ended with %v from %s after %d of %d units", cfg.Name(), o.Err, o.ErrAt, len(o.Delivered()), len(model))
		}
		return
	}
	r.Probe("invalid_text")
	r.Res.Nontrivial = true
	want := Before(model, badMsg.First.Off)
	CheckRecs(r, cfg, o, want)
	got := o.Delivered()
	if len(got) > len(want) {
		g := got[len(want)]
		if g.Kind == 'M' {
			r.Failf("invalid_text_delivered", "%s: text message with invalid UTF-8 (%d bytes in %d fragments) was returned as complete", cfg.Name(), len(badMsg.Payload), len(badMsg.Frames))
		}
		// Intermediate control frames of the invalid message may be handed over
		// before its end: compare them with the model.
		CheckRecs(r, cfg, o, Before(model, badMsg.Last.End)[:minInt(len(got), len(Before(model, badMsg.Last.End)))])
		for _, g := range got[len(want):] {
			if g.Kind == 'M' {
				r.Failf("invalid_text_delivered", "%s: invalid text message was returned as complete", cfg.Name())
			}
		}
	}
	if !errors.Is(o.Err, wsutil.ErrInvalidUTF8) {
		r.Failf("invalid_text_not_reported", "%s: invalid text message ended with %v from %s, expected ErrInvalidUTF8", cfg.Name(), o.Err, o.ErrAt)
	}
	if o.Open != nil && (len(o.Open.Data) > len(badMsg.Payload) || !bytes.Equal(o.Open.Data, badMsg.Payload[:len(o.Open.Data)])) {
		r.Failf("wrong_payload", "%s: bytes handed out before the UTF-8 error are not a prefix of the payload%s", cfg.Name(), firstDiff(o.Open.Data, badMsg.Payload))
	}
}

// c07Tolerant: an application that answers ErrInvalidUTF8 by discarding the
// rest of the message and reading on. Every message of the stream is then
// judged on its own: valid text and all binary delivered exactly, invalid text
// rejected - whatever preceded it on the same Reader.
func c07Tolerant(r *eng.Run, cfg ReadCfg, s *Stream, p *Pipe) {
	cfg.AfterUTF8Error = true
	cfg.OnInter = 0
	r.SetEntry("Reader/discard-after-error")
	r.Note("C07 tolerant Reader side=%d seg=%d stream: %s", cfg.Side, p.SegMode, s.Describe())
	o := RunApp(r, p, cfg)
	got := o.Delivered()
	if len(got) != len(s.Items) || o.Err != io.EOF {
		r.Failf("valid_text_rejected", "tolerant Reader: %d of %d messages handled, stream ended with %v from %s", len(got), len(s.Items), o.Err, o.ErrAt)
	}
	for i, it := range s.Items {
		m, g := it.Msg, got[i]
		if m == nil {
			// A control frame outside the messages: delivered as it is,
			// whatever its bytes.
			if g.Rejected || g.Kind != 'C' || (!g.Partial && !bytes.Equal(g.Data, it.Ctrl.Payload)) {
				r.Failf("valid_text_rejected", "tolerant Reader: unit %d is a %s outside any message; it was handed out as kind=%c rejected=%v with %x", i, frameStr(it.Ctrl), g.Kind, g.Rejected, g.Data)
			}
			continue
		}
		invalid := m.Op == ref.OpText && !utf8.Valid(m.Payload)
		switch {
		case invalid && !g.Rejected:
			r.Failf("invalid_text_delivered", "tolerant Reader: message %d is invalid text (%x) but was not rejected (earlier messages on this Reader: %d)", i, head(m.Payload, 16), i)
		case !invalid && g.Rejected:
			what := "valid text"
			if m.Op == ref.OpBinary {
				what = "binary"
				r.Probe("binary_after_rejected_text")
			}
			r.Failf("valid_text_rejected", "tolerant Reader: message %d is %s (%x) but was rejected with ErrInvalidUTF8 after %d earlier messages on the same Reader", i, what, head(m.Payload, 16), i)
		}
		if invalid {
			r.Res.Nontrivial = true
			r.Probe("rejected_then_continued")
		}
		if len(g.Data) > len(m.Payload) || !bytes.Equal(g.Data, m.Payload[:len(g.Data)]) {
			r.Failf("wrong_payload", "tolerant Reader: message %d: bytes handed out are not a prefix of the payload%s", i, firstDiff(g.Data, m.Payload))
		}
		if !g.Partial && !bytes.Equal(g.Data, m.Payload) {
			r.Failf("wrong_payload", "tolerant Reader: message %d delivered %d of %d bytes", i, len(g.Data), len(m.Payload))
		}
	}
}

// c07Standalone drives wsutil.UTF8Reader over a chunked source.
func c07Standalone(r *eng.Run) {
	r.SetEntry("UTF8Reader")
	lives := 1
	if r.T.Chance(sim.LHist, 1, 3) {
		lives = 2 + r.T.Int(sim.LHist, 2) // the same reader Reset onto further sources, whatever the earlier verdicts
		r.Probe("utf8reader_reset_between_streams")
	}
	var u *wsutil.UTF8Reader
	for life := 0; life < lives; life++ {
		data := drawText(r)
		p := NewPipe(r, data)
		p.SegMode = DrawSeg(r)
		if p.SegMode == SegBoundary {
			p.SegMode = SegTiny
		}
		if u == nil {
			u = wsutil.NewUTF8Reader(p)
		} else {
			u.Reset(p)
		}
		if len(data) > 0 && r.T.Chance(sim.LFault, 1, 4) {
			// One temporary error from the source somewhere, with or without
			// bytes; the application reads on.
			p.Transient = [][2]int{{r.T.Int(sim.LFaultAt, len(data)), len(data)}}
			p.TransientData = r.T.Bool(sim.LFault)
		}
		c07Judge(r, u, p, data, life)
	}
}

func c07Judge(r *eng.Run, u *wsutil.UTF8Reader, p *Pipe, data []byte, life int) {
	buf := make([]byte, drawBuf(r))
	valid := utf8.Valid(data)
	r.Note("C07 UTF8Reader life=%d seg=%d buf=%d data=%x valid=%v", life, p.SegMode, len(buf), data, valid)
	var got []byte
	for {
		n, err := u.Read(buf)
		got = append(got, buf[:n]...)
		if err == io.EOF {
			break
		}
		if err == wsutil.ErrInvalidUTF8 {
			r.Res.Nontrivial = true
			if valid {
				r.Failf("valid_text_rejected", "UTF8Reader (life %d) rejected valid UTF-8 %x after %d bytes", life, data, p.Consumed())
			}
			if validPrefix(data[:p.Consumed()]) {
				r.Failf("premature_reject", "UTF8Reader (life %d) rejected after consuming %x which is still a valid prefix", life, data[:p.Consumed()])
			}
			if len(got) > len(data) || !bytes.Equal(got, data[:len(got)]) {
				r.Failf("wrong_payload", "UTF8Reader handed out bytes that are not a prefix of the source")
			}
			return
		}
		if err != nil && errors.Is(err, ErrInjectedNet) && p.Transient != nil {
			r.Probe("utf8reader_read_on_after_temporary_error")
			continue
		}
		if err != nil {
			r.Failf("unexpected_error", "UTF8Reader: %v", err)
		}
		if n == 0 {
			r.Failf("unexpected_error", "UTF8Reader returned (0, nil)")
		}
	}
	if !bytes.Equal(got, data) {
		r.Failf("wrong_payload", "UTF8Reader altered the bytes%s", firstDiff(got, data))
	}
	if u.Valid() != valid {
		r.Failf("validity_mismatch", "UTF8Reader.Valid()=%v (life %d) after draining %x, utf8.Valid=%v", u.Valid(), life, data, valid)
	}
}
