package wire

import (
	"bufio"
	"bytes"
	"errors"
	"fmt"
	"io"
	"math/rand"
	"strings"

	"github.com/gobwas/ws"
	"github.com/gobwas/ws/wsflate"
	"github.com/gobwas/ws/wsutil"

	"verif/eng"
	"verif/ref"
	"verif/sim"
)

// C17: returned data and caller buffers are never aliased to pooled or
// internal memory. A run is a sequence of operations; what each returns is
// retained as returned (no copy) together with the value the model derives
// from the inputs, and every retained result is re-checked after every later
// operation. The sim pool recycles immediately (lifo) and poisons on put, so
// an alias shows as soon as the buffer is put back or reused.
func C17(r *eng.Run) {
	r.SetEntry("sequence")
	var retained []func() string
	verify := func(after string) {
		for _, f := range retained {
			if msg := f(); msg != "" {
				r.Failf("result_changed_after_later_operations", "%s (checked after %s)", msg, after)
			}
		}
	}
	n := 2 + r.T.Int(sim.LHist, 5)
	var ops []string
	for i := 0; i < n; i++ {
		var name string
		switch r.T.Int(sim.LOp, 10) {
		case 9:
			name = c17OwnBuffer(r, &retained)
		case 8:
			name = c17UpgraderMultiLine(r, &retained)
		case 0, 1, 2:
			name = c17Handshake(r, &retained)
		case 3:
			name = c17ReadMessage(r, &retained)
		case 4:
			name = c17ReadData(r, &retained)
		case 5:
			name = c17Close(r, &retained)
		case 6:
			name = c17MaskHelpers(r)
		default:
			if r.T.Chance(sim.LOp, 1, 3) {
				name = c17ServerWrite(r, &retained)
			} else {
				name = c17WriteSide(r)
			}
		}
		ops = append(ops, name)
		verify(name)
	}
	r.Note("C17 sequence: %v", ops)
	r.Res.Nontrivial = true
}

func c17Handshake(r *eng.Run, retained *[]func() string) string {
	c, s := drawHS(r)
	// Favour the selection paths whose results can differ from the offer.
	if r.T.Bool(sim.LCfg) {
		s.Ext = []int{1, 2, 4, 5, 5}[r.T.Int(sim.LCfg, 5)]
		s.ExtAccept = extNames
		s.Proto = 2 + r.T.Int(sim.LCfg, 2)
		if len(c.Protocols) == 0 {
			c.Protocols = []string{"chat", "superchat"}
		}
		if len(c.Exts) == 0 {
			c.Exts = []extSpec{{Name: "permessage-deflate", Params: [][2]string{{"client_max_window_bits", ""}}}, {Name: "foo", Params: [][2]string{{"p0", "abc"}}}}
		}
		s.Reject = 0
	}
	s.EditResult = s.Kind == 1 && r.T.Chance(sim.LCfg, 1, 3)
	t := roundTrip(r, c, s, int64(r.T.U32(sim.LMisc)), DrawSeg(r), DrawSeg(r))
	name := fmt.Sprintf("handshake(dialer%d,upgrader%d,ext=%d)", c.Debug, s.Kind, s.Ext)
	if t.Server.ok() != t.Client.ok() {
		r.FailProp("C11", "peers_disagree_on_success", "server %s but client %s\n  %s\n  %s", t.Server.summary(), t.Client.summary(), c, s)
	}
	if !t.Server.ok() || !t.Client.ok() {
		return name + "=failed"
	}
	if t.Client.RestErr != nil || !bytes.Equal(t.Client.Rest, s.Trailing) {
		r.FailProp("C11", "post_handshake_bytes_lost", "server sent %d bytes behind the 101, the client could read %d through buffer+conn (err %v, debug=%d)%s", len(s.Trailing), len(t.Client.Rest), t.Client.RestErr, c.Debug, firstDiff(t.Client.Rest, s.Trailing))
	}
	wantP, okP := expectedProtocol(c, s)
	wantX, okX := expectedExts(c, s)
	if !okX {
		// No model (wsflate negotiation): both peers derive their result
		// from different buffers; take the client's view at return time as
		// a string copy and hold both to it.
		wantX = append([]string(nil), extStrings(t.Client.Exts)...)
		if !sameStrings(wantX, extStrings(t.Server.Exts)) {
			r.FailProp("C11", "peers_disagree_on_extensions", "server %q client %q", optsString(t.Server.Exts), optsString(t.Client.Exts))
		}
	}
	for _, who := range []struct {
		side string
		o    *hsOutcome
	}{{"upgrader", t.Server}, {"dialer", t.Client}} {
		who := who
		*retained = append(*retained, func() string {
			if okP && who.o.Protocol != wantP {
				return fmt.Sprintf("%s Handshake.Protocol is now %q, expected %q (%s)", who.side, who.o.Protocol, wantP, name)
			}
			if got := extStrings(who.o.Exts); !sameStrings(got, wantX) {
				return fmt.Sprintf("%s Handshake.Extensions are now %q, expected %q (%s)", who.side, got, wantX, name)
			}
			return ""
		})
	}
	if len(wantX) > 0 {
		r.Probe("retained_extensions")
	}
	if wantP != "" {
		r.Probe("retained_protocol")
	}
	if line := []byte("Sec-WebSocket-Protocol: " + wantP + "\r\n"); wantP != "" && bytes.Count(t.Server.Written, line) == 1 {
		// The same response from a server that picks a subprotocol nobody
		// asked for: the dialer refuses it. What it hands back with the error
		// is the application's to keep (and to log) like any other result.
		const rogue = "zz-unrequested"
		resp := bytes.Replace(t.Server.Written, line, []byte("Sec-WebSocket-Protocol: "+rogue+"\r\n"), 1)
		rand.Seed(t.RSeed)
		ro := runClient(r, c, pipeFor(r, c.wire(resp), SegAll))
		if ro.Err != nil {
			r.Probe("handshake_refused_for_an_unrequested_subprotocol")
			legit := ro.Protocol == "" || ro.Protocol == rogue
			for _, p := range c.Protocols {
				legit = legit || ro.Protocol == p
			}
			if !legit {
				r.Failf("result_aliases_pooled_memory", "Dialer refused an unrequested subprotocol (%v) and returned Handshake.Protocol=%q, which is neither empty, nor one of its own %q, nor what the server sent (%q)", ro.Err, ro.Protocol, c.Protocols, rogue)
			}
			snap := strings.Clone(ro.Protocol)
			*retained = append(*retained, func() string {
				if ro.Protocol != snap {
					return fmt.Sprintf("Handshake.Protocol returned together with %v was %q and is now %q", ro.Err, snap, ro.Protocol)
				}
				return ""
			})
		}
	}
	return name
}

// c17UpgraderMultiLine: the client's extension offers arrive in several
// Sec-WebSocket-Extensions header lines (legal: RFC 6455 §9.1); what the
// upgrader returns must stay put.
func c17UpgraderMultiLine(r *eng.Run, retained *[]func() string) string {
	c, s := drawHS(r)
	c.Debug, c.Protocols = 0, nil
	s.Reject, s.Proto = 0, 0
	s.Ext = []int{1, 4, 4, 5}[r.T.Int(sim.LCfg, 4)]
	s.ExtAccept = extNames
	if s.Kind == 2 {
		s.Kind = 0
	}
	var lines [][]extSpec
	for i, n := 0, 2+r.T.Int(sim.LCfg, 2); i < n; i++ {
		var l []extSpec
		for j, m := 0, 1+r.T.Int(sim.LCfg, 2); j < m; j++ {
			name := extNames[r.T.Int(sim.LCfg, len(extNames))]
			l = append(l, extSpec{Name: name, Params: drawParams(r, false)})
		}
		lines = append(lines, l)
	}
	c.Exts = lines[0]
	for _, l := range lines[1:] {
		var parts []string
		for _, e := range l {
			parts = append(parts, e.headerString())
		}
		c.Header += "Sec-WebSocket-Extensions: " + strings.Join(parts, ", ") + "\r\n"
	}
	rand.Seed(int64(r.T.U32(sim.LMisc)))
	first := runClient(r, c, NewPipe(r, nil))
	sv := runServer(r, s, pipeFor(r, first.Written, DrawSeg(r)))
	name := fmt.Sprintf("upgrader(kind=%d,ext=%d) with %d extension header lines", s.Kind, s.Ext, len(lines))
	if !sv.ok() {
		return name + "=failed"
	}
	all := hsClient{}
	for _, l := range lines {
		all.Exts = append(all.Exts, l...)
	}
	want, _ := expectedExts(all, s)
	*retained = append(*retained, func() string {
		if got := extStrings(sv.Exts); !sameStrings(got, want) {
			return fmt.Sprintf("upgrader Handshake.Extensions are now %q, expected %q (%s)", got, want, name)
		}
		return ""
	})
	r.Probe("extensions_over_several_header_lines")
	return name
}

func c17ReadMessage(r *eng.Run, retained *[]func() string) string {
	side := ref.Side(r.T.Int(sim.LSide, 2))
	s := GenStream(r, StreamCfg{Recv: side, MaxMsgs: 3, TextValid: true, Budget: 70000})
	p := NewPipe(r, s.Wire)
	p.Marks, p.SegMode = MarksOf(s.Frames), DrawSeg(r)
	cfg := ReadCfg{App: AppReadMessage, Side: side}
	model := Model(s, cfg)
	var all []wsutil.Message
	// Either one growing slice, or the caller recycles its slice (msgs[:0])
	// for every call while keeping the payloads it was handed earlier.
	recycle := r.T.Bool(sim.LCfg)
	var scratch []wsutil.Message
	for {
		var err error
		if recycle {
			scratch, err = wsutil.ReadMessage(p, cfg.State(), scratch[:0])
			if err != nil {
				break
			}
			all = append(all, scratch...)
			continue
		}
		before := len(all)
		all, err = wsutil.ReadMessage(p, cfg.State(), all)
		if err != nil {
			all = all[:before]
			break
		}
	}
	if recycle {
		r.Probe("read_message_slice_recycled")
	}
	if len(all) != len(model) {
		r.FailProp("C04", "missing_delivery", "ReadMessage delivered %d of %d units", len(all), len(model))
	}
	if r.T.Bool(sim.LAct) {
		// The application answers the control messages it was handed, the
		// documented way, and goes on using the payloads afterwards.
		replies := NewPipe(r, nil)
		for i := range all {
			if !all[i].OpCode.IsControl() || i >= len(model) {
				continue
			}
			variant := r.T.Int(sim.LAct, 2)
			var herr error
			switch {
			case variant == 0:
				herr = wsutil.HandleControlMessage(replies, cfg.State(), all[i])
			case side == ref.Client:
				herr = wsutil.HandleServerControlMessage(replies, all[i])
			default:
				herr = wsutil.HandleClientControlMessage(replies, all[i])
			}
			var ce wsutil.ClosedError
			if errors.As(herr, &ce) && len(all[i].Payload) > 2 {
				// The application keeps the close report and reuses the
				// message's payload bytes for something else.
				reason := string(append([]byte(nil), ce.Reason...))
				held := ce
				scratch := append([]byte(nil), all[i].Payload...)
				for k := range all[i].Payload {
					all[i].Payload[k] = 0x5a
				}
				if held.Reason != reason {
					r.Failf("result_aliases_caller_slice", "HandleControlMessage: the close reason it reported changed when the application reused the message's payload bytes")
				}
				copy(all[i].Payload, scratch)
				r.Probe("close_report_kept_payload_reused")
			}
			if !bytes.Equal(all[i].Payload, model[i].Data) {
				r.Failf("caller_slice_modified", "HandleControlMessage (side=%d) modified the payload of the message it was given (opcode %d, %d bytes)%s", side, all[i].OpCode, len(model[i].Data), firstDiff(all[i].Payload, model[i].Data))
			}
			r.Probe("control_message_answered_then_inspected")
		}
	}
	if len(all) == len(model) && r.T.Chance(sim.LAct, 1, 3) {
		// The application appends to the payloads it was handed (or otherwise
		// uses their spare capacity): each is its own, so that must not show
		// in any other.
		for i := range all {
			pl := all[i].Payload
			for k := len(pl); k < cap(pl); k++ {
				pl[:cap(pl)][k] = 0x5a
			}
		}
		for i := range all {
			if !bytes.Equal(all[i].Payload, model[i].Data) {
				r.Failf("result_aliases_internal_memory", "ReadMessage: payload %d (%d bytes) changed when the application used the spare capacity of the other payloads of the same call%s", i, len(model[i].Data), firstDiff(all[i].Payload, model[i].Data))
			}
		}
		r.Probe("spare_capacity_of_returned_payloads_used")
	}
	for i := range all {
		i := i
		m := all[i] // retained as returned
		want := model[i].Data
		*retained = append(*retained, func() string {
			if !bytes.Equal(m.Payload, want) {
				return fmt.Sprintf("payload %d returned by ReadMessage (%d bytes) changed%s", i, len(want), firstDiff(m.Payload, want))
			}
			return ""
		})
	}
	r.Probe("retained_read_message_payloads")
	return fmt.Sprintf("ReadMessage(%d units)", len(all))
}

func c17ReadData(r *eng.Run, retained *[]func() string) string {
	side := ref.Side(r.T.Int(sim.LSide, 2))
	s := GenStream(r, StreamCfg{Recv: side, MaxMsgs: 3, TextValid: true, Budget: 70000})
	p := NewPipe(r, s.Wire)
	p.Marks, p.SegMode = MarksOf(s.Frames), DrawSeg(r)
	cfg := ReadCfg{App: AppReadData, Side: side}
	model := Model(s, cfg)
	// The connection as applications often hold it after a handshake: behind
	// the bufio.Reader (or ReadWriter) the handshake returned.
	var src io.ReadWriter = p
	switch r.T.Int(sim.LCfg, 4) {
	case 1:
		src = struct {
			io.Reader
			io.Writer
		}{bufio.NewReaderSize(p, []int{16, 256, 4096}[r.T.Int(sim.LSize, 3)]), p}
		r.Probe("read_helpers_over_bufio_reader")
	case 2:
		src = bufio.NewReadWriter(bufio.NewReaderSize(p, []int{16, 256, 4096}[r.T.Int(sim.LSize, 3)]), bufio.NewWriterSize(p, 0))
		r.Probe("read_helpers_over_bufio_readwriter")
	}
	k := 0
	for {
		data, _, err := wsutil.ReadData(src, cfg.State())
		if bw, ok := src.(*bufio.ReadWriter); ok {
			bw.Flush()
		}
		if err != nil {
			break
		}
		if k >= len(model) {
			r.FailProp("C04", "extra_delivery", "ReadData delivered more than the stream holds")
		}
		want := model[k].Data
		idx := k
		*retained = append(*retained, func() string {
			if !bytes.Equal(data, want) {
				return fmt.Sprintf("payload %d returned by ReadData (%d bytes) changed%s", idx, len(want), firstDiff(data, want))
			}
			return ""
		})
		k++
	}
	if k != len(model) {
		r.FailProp("C04", "missing_delivery", "ReadData delivered %d of %d messages", k, len(model))
	}
	r.Probe("retained_read_data_payloads")
	return fmt.Sprintf("ReadData(%d msgs, %d pongs written)", k, len(ExpectedReplies(s, len(s.Wire))))
}

func c17Close(r *eng.Run, retained *[]func() string) string {
	side := ref.Side(r.T.Int(sim.LSide, 2))
	code := validCodes[r.T.Int(sim.LCode, len(validCodes))]
	n := []int{1, 5, 60, 61, 62, 123}[r.T.Int(sim.LLen, 6)]
	reason := make([]byte, n)
	FillUTF8(reason, r.T.U32(sim.LPaySeed))
	payload := append([]byte{byte(code >> 8), byte(code)}, reason...)
	want := string(reason)
	dst := NewPipe(r, nil)
	var err error
	if r.T.Chance(sim.LAct, 1, 3) {
		// The close arrives as a message (ReadMessage) and is answered with
		// HandleControlMessage; afterwards the application reuses the
		// message's payload bytes while it keeps the error.
		f := &ref.Frame{Fin: true, Op: ref.OpClose, Payload: payload}
		if side == ref.Server {
			f.Masked, f.Mask = true, drawMask(r)
		}
		msgs, rerr := wsutil.ReadMessage(NewPipe(r, ref.Encode([]*ref.Frame{f})), sideState(side), nil)
		if rerr != nil || len(msgs) != 1 {
			r.FailProp("C04", "missing_delivery", "ReadMessage on a single close frame: %d messages, %v", len(msgs), rerr)
		}
		err = wsutil.HandleControlMessage(dst, sideState(side), msgs[0])
		for k := range msgs[0].Payload {
			msgs[0].Payload[k] = 0x5a
		}
		r.Probe("close_report_kept_payload_reused")
	} else {
		err = wsutil.ControlHandler{Src: bytes.NewReader(payload), Dst: dst, State: sideState(side), DisableSrcCiphering: true}.
			Handle(ws.Header{Fin: true, OpCode: ws.OpClose, Length: int64(len(payload)), Masked: side == ref.Server})
	}
	ce, ok := err.(wsutil.ClosedError)
	if !ok {
		r.FailProp("C08", "wrong_return", "HandleClose of a valid close returned %v", err)
	}
	*retained = append(*retained, func() string {
		if ce.Reason != want || int(ce.Code) != code {
			return fmt.Sprintf("ClosedError is now {%d,%q}, expected {%d,%q}", ce.Code, ce.Reason, code, want)
		}
		return ""
	})
	r.Probe("retained_close_reason")
	return fmt.Sprintf("HandleClose(%d byte reason)", n)
}

func c17MaskHelpers(r *eng.Run) string {
	n := []int{0, 1, 3, 7, 8, 9, 31, 64, 1000}[r.T.Int(sim.LLen, 9)]
	payload := patBytes(r.T.U32(sim.LPaySeed), 0, n)
	// The payload as applications often have it: a window of a larger buffer
	// (a read buffer with the next frame behind it, scratch[:n]).
	var room, roomKeep []byte
	if r.T.Bool(sim.LCfg) {
		room = patBytes(77, 0, 2*n+16+r.T.Int(sim.LLen, 64))
		copy(room, payload)
		payload = room[:n]
		roomKeep = append([]byte(nil), room...)
		r.Probe("mask_helpers_payload_inside_larger_buffer")
	}
	keep := append([]byte(nil), payload...)
	f := ws.NewBinaryFrame(payload)
	// The frame may already carry a mask in its header (e.g. a frame read by
	// ws.ReadFrame on the server side and passed on).
	pre := r.T.Bool(sim.LMask)
	if pre {
		f.Header.Masked, f.Header.Mask = true, drawMask(r)
	}
	mask := drawMask(r)
	which := r.T.Int(sim.LOp, 3)
	var out ws.Frame
	var want []byte
	switch which {
	case 0:
		out = ws.MaskFrameWith(f, mask)
		want = make([]byte, n)
		ref.XOR(want, keep, mask, 0)
	case 1:
		out = ws.MaskFrame(f)
		want = make([]byte, n)
		ref.XOR(want, keep, out.Header.Mask, 0)
	default:
		out = ws.UnmaskFrame(f)
		want = make([]byte, n)
		ref.XOR(want, keep, f.Header.Mask, 0)
	}
	name := []string{"MaskFrameWith", "MaskFrame", "UnmaskFrame"}[which]
	if !bytes.Equal(payload, keep) {
		r.Failf("caller_slice_modified", "%s (header already masked=%v) modified the caller's %d byte payload%s", name, pre, n, firstDiff(payload, keep))
	}
	if room != nil && !bytes.Equal(room, roomKeep) {
		r.Failf("caller_slice_modified", "%s (header already masked=%v): the caller's buffer behind the %d byte payload was overwritten%s", name, pre, n, firstDiff(room, roomKeep))
	}
	if !bytes.Equal(out.Payload, want) {
		r.FailProp("C02", "cipher_mismatch", "%s (header already masked=%v) returned a payload that is not the RFC XOR of the input", name, pre)
	}
	for i := range payload {
		payload[i] ^= 0x5a
	}
	for i := range room {
		room[i] ^= 0x5a
	}
	if !bytes.Equal(out.Payload, want) {
		r.Failf("result_aliases_caller_slice", "%s: the returned frame changed when the caller scribbled on its slice", name)
	}
	r.Probe("mask_helpers")
	return name
}

// c17WriteSide: client-side writes leave the caller's slice intact - also when
// the destination fails - and bytes already handed over do not change when
// the caller reuses its slice.
// c17ClientWriter returns a client-side Writer of the given size the way
// applications come by one: constructed, constructed for the other side and
// Reset, or taken from the writer pool after a server-side user.
func c17ClientWriter(r *eng.Run, dst io.Writer, size int) *wsutil.Writer {
	v := r.T.Int(sim.LCfg, 4)
	if (v == 1 || v == 3) && size < 16 {
		// A buffer sized for a server header cannot hold a client header plus
		// a byte: Reset panics there exactly like the constructor would; and
		// GetWriter below the pool's smallest class is NewWriterBufferSize with
		// that raw size, which panics by contract when no header fits.
		v = 0
	}
	switch v {
	case 1:
		w := wsutil.NewWriterSize(io.Discard, ws.StateServerSide, ws.OpText, size)
		w.Reset(dst, ws.StateClientSide, ws.OpBinary)
		r.Probe("client_writer_was_reset_from_server_side")
		return w
	case 2:
		w := wsutil.NewWriterBufferSize(io.Discard, ws.StateServerSide, ws.OpText, size+14)
		w.Reset(dst, ws.StateClientSide, ws.OpBinary)
		r.Probe("client_writer_was_reset_from_server_side")
		return w
	case 3:
		wsutil.PutWriter(wsutil.GetWriter(io.Discard, ws.StateServerSide, ws.OpText, size))
		r.Probe("client_writer_from_pool_after_server_side_user")
		return wsutil.GetWriter(dst, ws.StateClientSide, ws.OpBinary, size)
	}
	return wsutil.NewWriterSize(dst, ws.StateClientSide|[]ws.State{0, ws.StateExtended}[r.T.Int(sim.LCfg, 2)], ws.OpBinary, size)
}

// c17OwnBuffer: a Writer over a buffer the application owns (its capacity
// happens to be a pool class), flushing disabled, so that a larger write makes
// the Writer grow away from it. The buffer stays the application's: it reuses
// it, and nothing the library does later may show in it.
func c17OwnBuffer(r *eng.Run, retained *[]func() string) string {
	class := []int{128, 256, 4096}[r.T.Int(sim.LSize, 3)]
	own := make([]byte, class)
	dst := NewPipe(r, nil)
	state := []ws.State{ws.StateServerSide, ws.StateClientSide}[r.T.Int(sim.LSide, 2)]
	w := wsutil.NewWriterBuffer(dst, state, ws.OpBinary, own)
	w.DisableFlush()
	data := patBytes(r.T.U32(sim.LPaySeed), 0, class+1+r.T.Int(sim.LLen, 2*class))
	if _, err := w.Write(data); err != nil {
		r.Failf("unexpected_error", "Writer over the application's buffer: Write: %v", err)
	}
	if err := w.Flush(); err != nil {
		r.Failf("unexpected_error", "Writer over the application's buffer: Flush: %v", err)
	}
	// The application takes its buffer back for something else.
	for i := range own {
		own[i] = 0x77
	}
	*retained = append(*retained, func() string {
		for i, b := range own {
			if b != 0x77 {
				return fmt.Sprintf("the %d byte buffer the application lent to NewWriterBuffer (outgrown since) changed at byte %d: 0x%02x", class, i, b)
			}
		}
		return ""
	})
	r.Probe("writer_grew_away_from_application_buffer")
	return fmt.Sprintf("NewWriterBuffer(own %d)+grow", class)
}

// c17ServerWrite: server-side writes send the caller's slice as it is. The
// slice - its capacity is a pool class as often as not - stays the caller's:
// intact after the call and after whatever the library does later.
func c17ServerWrite(r *eng.Run, retained *[]func() string) string {
	class := []int{128, 256, 1024, 4096, 65536}[r.T.Int(sim.LSize, 5)]
	n := class
	if r.T.Bool(sim.LLen) {
		n = 1 + r.T.Int(sim.LLen, class)
	}
	own := patBytes(r.T.U32(sim.LPaySeed), 0, class)
	keep := append([]byte(nil), own...)
	data := own[:n]
	dst := NewPipe(r, nil)
	which := r.T.Int(sim.LOp, 5)
	name := []string{"WriteServerMessage", "WriteServerBinary", "WriteMessage(server)", "Writer(server).WriteThrough", "WriteFrame"}[which]
	var err error
	switch which {
	case 0:
		err = wsutil.WriteServerMessage(dst, ws.OpBinary, data)
	case 1:
		err = wsutil.WriteServerBinary(dst, data)
	case 2:
		err = wsutil.WriteMessage(dst, ws.StateServerSide, ws.OpText, data)
	case 3:
		_, err = wsutil.NewWriter(dst, ws.StateServerSide, ws.OpBinary).WriteThrough(data)
	default:
		err = ws.WriteFrame(dst, ws.NewBinaryFrame(data))
	}
	if err != nil {
		r.Failf("unexpected_error", "%s(%d bytes): %v", name, n, err)
	}
	if !bytes.Equal(own, keep) {
		r.Failf("caller_slice_modified", "%s(%d bytes of a %d byte buffer) left the caller's buffer modified%s", name, n, class, firstDiff(own, keep))
	}
	*retained = append(*retained, func() string {
		if !bytes.Equal(own, keep) {
			return fmt.Sprintf("the %d byte buffer whose first %d bytes were sent with %s changed%s", class, n, name, firstDiff(own, keep))
		}
		return ""
	})
	r.Probe("server_write_of_pool_class_buffer")
	return fmt.Sprintf("%s(%d/%d)", name, n, class)
}

func c17WriteSide(r *eng.Run) string {
	n := []int{0, 1, 100, 127, 128, 129, 4096, 65536, 65537, 70000}[r.T.Int(sim.LLen, 10)]
	data := patBytes(r.T.U32(sim.LPaySeed), 0, n)
	keep := append([]byte(nil), data...)
	dst := NewPipe(r, nil)
	fail := r.T.Chance(sim.LFault, 1, 3)
	if fail {
		dst.WFailAt = r.T.Int(sim.LFaultAt, 2)
		dst.WFailN = r.T.Int(sim.LFaultAt, 3)
	}
	// Someone else may be looking at the same payload while it is written
	// (a broadcast): the observer stands at the destination.
	during := ""
	dst.OnWrite = func() {
		if during == "" && !bytes.Equal(data, keep) {
			during = firstDiff(data, keep)
		}
	}
	rand.Seed(int64(r.T.U32(sim.LMisc)))
	which := r.T.Int(sim.LOp, 5)
	name := []string{"WriteClientMessage", "Writer.WriteThrough", "CipherWriter.Write", "Writer.Write", "Writer.ReadFrom(*bytes.Buffer)"}[which]
	var err error
	switch which {
	case 0:
		if extra := []ws.State{0, 0, ws.StateExtended, ws.StateFragmented}[r.T.Int(sim.LCfg, 4)]; extra != 0 {
			err = wsutil.WriteMessage(dst, ws.StateClientSide|extra, ws.OpBinary, data)
			r.Probe("client_state_with_further_bits")
		} else {
			err = wsutil.WriteClientMessage(dst, ws.OpBinary, data)
		}
	case 1:
		w := c17ClientWriter(r, dst, 4096)
		if r.T.Bool(sim.LCfg) {
			// ... with a send extension attached (the compression state of a
			// connection that negotiated it; this message is not compressed).
			w.SetExtensions(&wsflate.MessageState{})
			r.Probe("client_write_through_with_extension_attached")
		}
		_, err = w.WriteThrough(data)
	case 2:
		// One CipherWriter, the payload in up to three writes at any offsets
		// (the key position runs on across calls).
		cw := wsutil.NewCipherWriter(dst, drawMask(r))
		rest := data
		for i := 0; i < 2 && len(rest) > 1 && err == nil; i++ {
			k := 1 + r.T.Int(sim.LSeg, minInt(len(rest)-1, 9))
			if r.T.Bool(sim.LSeg) {
				k = 1 + r.T.Int(sim.LSeg, len(rest)-1) // pieces of any size (the pool only keeps 128 bytes and up)
			}
			_, err = cw.Write(rest[:k])
			rest = rest[k:]
			if err == nil && r.T.Bool(sim.LHist) {
				// The next frame on the same connection: the application
				// re-arms its CipherWriter with the new key.
				cw.Reset(dst, drawMask(r))
				r.Probe("cipher_writer_reset_between_writes")
			}
		}
		if err == nil {
			_, err = cw.Write(rest)
		}
	case 4:
		// The bytes wrapped in a bytes.Buffer (which does not copy them) and
		// handed to the writer as a source, directly or through io.Copy.
		w := c17ClientWriter(r, dst, []int{16, 200, 4096}[r.T.Int(sim.LSize, 3)])
		if r.T.Bool(sim.LAct) {
			_, err = w.ReadFrom(bytes.NewBuffer(data))
		} else {
			_, err = io.Copy(w, bytes.NewBuffer(data))
		}
		if err == nil {
			err = w.Flush()
		}
	default:
		w := c17ClientWriter(r, dst, 1+r.T.Int(sim.LSize, 200))
		if r.T.Bool(sim.LCfg) {
			w.SetExtensions(&wsflate.MessageState{})
			r.Probe("client_write_through_with_extension_attached")
		}
		_, err = w.Write(data)
		if err == nil {
			err = w.Flush()
		}
	}
	if !bytes.Equal(data, keep) {
		r.Failf("caller_slice_modified", "%s(%d bytes, destination failed=%v, err=%v) left the caller's slice modified%s", name, n, dst.WriteFailed(), err, firstDiff(data, keep))
	}
	if during != "" {
		r.Failf("caller_slice_modified", "%s(%d bytes): the caller's slice was not intact while the destination was being written to%s", name, n, during)
	}
	sent := append([]byte(nil), dst.Out...)
	for i := range data {
		data[i] ^= 0xff
	}
	if !bytes.Equal(sent, dst.Out) {
		r.Failf("wire_aliases_caller_slice", "%s: bytes handed to the destination changed when the caller reused its slice", name)
	}
	if fail && dst.WriteFailed() {
		r.Fault("write_fail")
	}
	r.Probe("client_write_side")
	_ = io.EOF
	return fmt.Sprintf("%s(%d)", name, n)
}
