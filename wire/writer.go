package wire

import (
	"bufio"
	"bytes"
	"errors"
	"fmt"
	"io"
	"math/rand"
	"reflect"
	"strings"

	"github.com/gobwas/ws"
	"github.com/gobwas/ws/wsflate"
	"github.com/gobwas/ws/wsutil"

	"verif/eng"
	"verif/ref"
	"verif/sim"
)

// Writer history operations.
const (
	WOpWrite = iota
	WOpReadFrom
	WOpCopy
	WOpThrough
	WOpFlushFrag
	WOpFlush
	WOpGrow
	WOpWriteEmpty
	WOpReattach // SetExtensions called again with the same message state (only generated for C13)
	WOpSetExt   // SetExtensions called with another chain (N: bits 0-1 RSV2 extension placement, bit 2 RSV3 extension, bit 3 keep the message state); only generated when WCfg.SwapExt
	numWOps
)

var wopNames = [...]string{"Write", "ReadFrom", "Copy", "WriteThrough", "FlushFragment", "Flush", "Grow", "Write0", "SetExtensions", "SetExtensions*"}

// WOp is one step of a writer history.
type WOp struct {
	Kind     int
	N        int   // payload size / grow size
	Chunks   []int // ReadFrom: sizes the source hands out per Read
	SrcErr   bool  // ReadFrom: source ends with an error instead of EOF
	SrcZeros int   // ReadFrom: the source answers (0, nil) this many times before every piece (legal for an io.Reader)
	SrcStall bool  // ReadFrom: behind its data the source answers (0, nil) for ever (never an end): io.ErrNoProgress is the way out
	SrcEnd   bool  // ReadFrom: the source returns its last bytes together with the end condition (n>0, err)
	SrcKind  int   // ReadFrom/Copy: 0 a plain scripted reader; 1 *bytes.Reader, 2 *bytes.Buffer, 3 *strings.Reader over the data (sources with WriteTo, Len, ReadByte...)
	Via      int   // Write: how the application hands the bytes over (0 w.Write; 1.. through a std helper, see writeVia)
}

var viaNames = [...]string{"", "io.WriteString", "io.Copy<-strings.Reader", "io.Copy<-bytes.Reader", "bytes.Buffer.WriteTo", "fmt.Fprintf", "bufio.Writer+Flush"}

// writeVia hands data to w the way applications do through the standard
// library, whose helpers look for optional interfaces on w (io.StringWriter,
// io.ReaderFrom, io.ByteWriter...). On a Writer that only has Write and
// ReadFrom every one of these is one Write(data) call.
func writeVia(w io.Writer, via int, data []byte) (int, error) {
	switch via {
	case 1:
		return io.WriteString(w, string(data))
	case 2:
		// strings.Reader.WriteTo -> io.WriteString(w, s)
		n, err := io.Copy(w, strings.NewReader(string(data)))
		return int(n), err
	case 3:
		// bytes.Reader.WriteTo -> w.Write
		n, err := io.Copy(w, bytes.NewReader(data))
		return int(n), err
	case 4:
		n, err := bytes.NewBuffer(data).WriteTo(w)
		return int(n), err
	case 5:
		return fmt.Fprintf(w, "%s", data)
	case 6:
		// A bufio.Writer at least as large as the data in front: Flush is one
		// Write of everything.
		bw := bufio.NewWriterSize(w, len(data)+16)
		bw.Write(data)
		before := bw.Buffered()
		err := bw.Flush()
		return before - bw.Buffered(), err
	}
	return w.Write(data)
}

func (o WOp) String() string {
	s := wopNames[o.Kind]
	switch o.Kind {
	case WOpWrite, WOpThrough, WOpGrow, WOpSetExt:
		s += fmt.Sprintf("(%d)", o.N)
		if o.Via != 0 {
			s += " via " + viaNames[o.Via]
		}
	case WOpReadFrom, WOpCopy:
		s += fmt.Sprintf("(%d in %d reads, srcErr=%v, endWithData=%v)", o.N, len(o.Chunks), o.SrcErr, o.SrcEnd)
		if o.SrcKind != 0 {
			s += " from " + [...]string{"", "*bytes.Reader", "*bytes.Buffer", "*strings.Reader"}[o.SrcKind]
		}
		if o.SrcZeros > 0 || o.SrcStall {
			s += fmt.Sprintf("[zero reads=%d stall=%v]", o.SrcZeros, o.SrcStall)
		}
	}
	return s
}

// WCfg is how the writer is constructed.
type WCfg struct {
	Ctor      int // 0 NewWriter 1 NewWriterSize 2 NewWriterBufferSize 3 NewWriterBuffer 4 GetWriter
	Size      int
	Client    bool
	Op        byte
	NoFlush   bool
	Ext       int // 0 none, 1 MessageState not compressed, 2 MessageState compressed
	PlainOnly bool
	Ext2      int      // a second extension that sets RSV2 on every frame: 0 none, 1 attached after the message state, 2 before it
	Extra     ws.State // further state bits the application carries in the same value (StateExtended, StateFragmented)
	Ext3      bool     // a further extension that sets RSV3 on every frame (last in the chain)
	SwapExt   bool     // the history may replace the extension chain (WOpSetExt)
	DefWB     int      // Ctor 0 only: what the application has set wsutil.DefaultWriteBuffer to (0: left alone)
	NoSide    bool     // !Client only: the state value carries neither side bit (not client-side: frames are not masked)
}

var ctorNames = [...]string{"NewWriter", "NewWriterSize", "NewWriterBufferSize", "NewWriterBuffer", "GetWriter"}

func (c WCfg) State() ws.State {
	if c.Client {
		return ws.StateClientSide | c.Extra
	}
	if c.NoSide {
		return c.Extra
	}
	return ws.StateServerSide | c.Extra
}

func (c WCfg) String() string {
	return fmt.Sprintf("%s(size=%d state=%#x op=%d noFlush=%v ext=%d ext2=%d ext3=%v)", ctorNames[c.Ctor], c.Size, uint8(c.State()), c.Op, c.NoFlush, c.Ext, c.Ext2, c.Ext3)
}

// headerRoom is the RFC header length for a payload of n bytes.
func headerRoom(n int, masked bool) int {
	h := 2
	switch {
	case n > 65535:
		h = 10
	case n > 125:
		h = 4
	}
	if masked {
		h += 4
	}
	return h
}

var bufSizeBases = []int{1, 2, 3, 7, 8, 16, 100, 123, 124, 125, 126, 127, 128, 129, 130, 131, 132, 133, 134, 135, 136, 256, 1000, 4096,
	65533, 65534, 65535, 65536, 65537, 65538, 65539, 65540, 65541, 65542, 65543, 65544, 65545, 65546, 65550, 70000}

func drawWCfg(r *eng.Run) WCfg {
	c := WCfg{Ctor: r.T.Int(sim.LCfg, 5), Client: r.T.Bool(sim.LSide), Op: ref.OpText}
	if r.T.Bool(sim.LOp) {
		c.Op = ref.OpBinary
	}
	// Small sizes dominate; the big classes are rare (cost).
	if r.T.Chance(sim.LSize, 1, 8) {
		c.Size = bufSizeBases[r.T.Int(sim.LSize, len(bufSizeBases))]
	} else {
		c.Size = bufSizeBases[r.T.Int(sim.LSize, 24)]
	}
	minRaw := 3
	if c.Client {
		minRaw = 7
	}
	switch c.Ctor {
	case 2, 3, 4:
		// Sizes that cannot hold header + 1 byte panic by documented contract.
		if c.Size < minRaw {
			c.Size = minRaw
		}
		// A raw size between the two reservation thresholds can leave no room
		// (documented panic: "buffer is too small"); keep one payload byte.
	}
	if c.Ctor == 0 && r.T.Chance(sim.LSize, 1, 3) {
		// The application has tuned the package-level default.
		c.DefWB = []int{16, 64, 100, 124, 126, 200, 1024, 70000}[r.T.Int(sim.LSize, 8)]
		r.Probe("default_write_buffer_tuned")
	}
	c.NoFlush = r.T.Chance(sim.LCfg, 1, 5)
	c.Ext = r.T.Int(sim.LCfg, 4) % 3
	c.Ext2 = []int{0, 0, 0, 1, 2}[r.T.Int(sim.LCfg, 5)]
	c.Extra = []ws.State{0, 0, ws.StateExtended, ws.StateFragmented, ws.StateExtended | ws.StateFragmented}[r.T.Int(sim.LCfg, 5)]
	return c
}

// patSrc produces the deterministic content of a run: byte i of the accepted
// stream of a writer history is pat(seed, i).
func pat(seed uint32, i int) byte {
	x := uint64(seed)<<32 | uint64(uint32(i))
	x ^= x >> 33
	x *= 0xff51afd7ed558ccd
	x ^= x >> 33
	return byte(x)
}

func patBytes(seed uint32, from, n int) []byte {
	b := make([]byte, n)
	for i := range b {
		b[i] = pat(seed, from+i)
	}
	return b
}

// chunkSrc is the io.Reader handed to ReadFrom.
type chunkSrc struct {
	data     []byte
	chunks   []int
	i        int
	pos      int
	fail     bool
	withData bool
	produced int
	zeros    int // empty reads before every piece
	zleft    int
	zarmed   bool
	stall    bool // behind the data: (0, nil) for ever
}

func (c *chunkSrc) Read(p []byte) (int, error) {
	if c.pos >= len(c.data) && c.stall {
		return 0, nil
	}
	if c.zeros > 0 && c.pos < len(c.data) {
		if !c.zarmed {
			c.zarmed, c.zleft = true, c.zeros
		}
		if c.zleft > 0 {
			c.zleft--
			return 0, nil
		}
		c.zarmed = false
	}
	if c.pos >= len(c.data) {
		if c.fail {
			return 0, ErrInjected
		}
		return 0, io.EOF
	}
	n := len(c.data) - c.pos
	if c.i < len(c.chunks) && c.chunks[c.i] < n {
		n = c.chunks[c.i]
	}
	c.i++
	if n > len(p) {
		n = len(p)
	}
	copy(p, c.data[c.pos:c.pos+n])
	c.pos += n
	c.produced += n
	if c.withData && c.pos >= len(c.data) {
		if c.fail {
			return n, ErrInjected
		}
		return n, io.EOF
	}
	return n, nil
}

func drawHistory(r *eng.Run, cfg WCfg, maxOps int) []WOp {
	n := 1 + r.T.Int(sim.LHist, maxOps)
	ops := make([]WOp, 0, n+1)
	size := cfg.Size
	if size <= 0 || cfg.Ctor == 0 {
		size = 4096
		if cfg.Ctor == 0 && cfg.DefWB > 0 {
			size = cfg.DefWB
		}
	}
	drawN := func() int {
		// Sizes relative to the buffer.
		switch r.T.Int(sim.LLen, 9) {
		case 0:
			return 1
		case 1:
			return r.T.Range(sim.LLen, 0, 8)
		case 2:
			return maxInt(0, size-r.T.Int(sim.LLen, 16))
		case 3:
			return size
		case 4:
			return size + 1 + r.T.Int(sim.LLen, 16)
		case 5:
			return r.T.Range(sim.LLen, 0, 2*size+2)
		case 6:
			return r.T.Range(sim.LLen, 120, 132)
		case 7:
			return size / 2
		default:
			return r.T.Range(sim.LLen, 0, 300)
		}
	}
	for i := 0; i < n; i++ {
		var op WOp
		if cfg.PlainOnly {
			op.Kind = []int{WOpWrite, WOpWrite, WOpWrite, WOpFlush, WOpGrow, WOpWriteEmpty}[r.T.Int(sim.LHist, 6)]
		} else {
			op.Kind = []int{WOpWrite, WOpWrite, WOpWrite, WOpReadFrom, WOpCopy, WOpThrough, WOpFlushFrag, WOpFlush, WOpFlush, WOpGrow, WOpWriteEmpty}[r.T.Int(sim.LHist, 11)]
		}
		if cfg.SwapExt && r.T.Chance(sim.LHist, 1, 6) {
			op.Kind = WOpSetExt
		}
		switch op.Kind {
		case WOpSetExt:
			op.N = r.T.Int(sim.LCfg, 16)
		case WOpWrite, WOpThrough:
			op.N = drawN()
			if op.Kind == WOpWrite && op.N > 0 && r.T.Chance(sim.LHist, 1, 5) {
				op.Via = 1 + r.T.Int(sim.LHist, len(viaNames)-1)
				r.Probe("write_through_a_std_helper")
			}
		case WOpGrow:
			op.N = drawN()
		case WOpReadFrom, WOpCopy:
			op.N = drawN()
			left := op.N
			for left > 0 && len(op.Chunks) < 64 {
				c := 1 + r.T.Int(sim.LSeg, maxInt(1, minInt(left, size+8)))
				op.Chunks = append(op.Chunks, c)
				left -= c
			}
			op.SrcErr = r.T.Chance(sim.LFault, 1, 6)
			if r.T.Chance(sim.LFault, 1, 6) {
				op.SrcZeros = 1 + r.T.Int(sim.LFault, 3)
				r.Probe("copy_source_with_zero_reads")
			}
			if !op.SrcErr && r.T.Chance(sim.LFault, 1, 16) {
				op.SrcStall, op.SrcEnd = true, false
				r.Probe("copy_source_that_stalls")
			}
			op.SrcEnd = r.T.Chance(sim.LFault, 1, 3)
			if !op.SrcErr && op.SrcZeros == 0 && !op.SrcStall && r.T.Chance(sim.LCfg, 1, 4) {
				op.SrcKind, op.SrcEnd = 1+r.T.Int(sim.LCfg, 3), false
				op.Chunks = nil
				r.Probe("copy_source_is_a_std_in_memory_reader")
			}
		}
		ops = append(ops, op)
	}
	// Most histories end with a final flush.
	if !r.T.Chance(sim.LHist, 1, 5) {
		ops = append(ops, WOp{Kind: WOpFlush})
	}
	return ops
}

func maxInt(a, b int) int {
	if a > b {
		return a
	}
	return b
}

// StepObs is what one call returned and what the getters said afterwards.
type StepObs struct {
	Op                        WOp
	N                         int64
	Err                       error
	Size, Available, Buffered int
	WireLen                   int
	DestCalls                 int
}

// WRun is one execution of a history.
type WRun struct {
	Cfg      WCfg
	Ops      []WOp
	Obs      []StepObs
	Pipe     *Pipe
	Accepted []byte // bytes the calls reported as accepted, in order
	W        *wsutil.Writer
	MS       *wsflate.MessageState
	Size0    int
	Offered  int // bytes offered so far (content position)
	Mutated  string
}

// NewW constructs the writer of cfg onto dest.
func NewW(cfg WCfg, dest io.Writer) *wsutil.Writer {
	st, op := cfg.State(), ws.OpCode(cfg.Op)
	switch cfg.Ctor {
	case 0:
		if cfg.DefWB > 0 {
			wsutil.DefaultWriteBuffer = cfg.DefWB // put back at the start of the next run
		}
		return wsutil.NewWriter(dest, st, op)
	case 1:
		return wsutil.NewWriterSize(dest, st, op, cfg.Size)
	case 2:
		return wsutil.NewWriterBufferSize(dest, st, op, cfg.Size)
	case 3:
		// The caller's buffer holds whatever it held before.
		buf := make([]byte, cfg.Size)
		for i := range buf {
			buf[i] = 0xEE
		}
		return wsutil.NewWriterBuffer(dest, st, op, buf)
	default:
		return wsutil.GetWriter(dest, st, op, cfg.Size)
	}
}

func applyOptions(w *wsutil.Writer, cfg WCfg) *wsflate.MessageState {
	var ms *wsflate.MessageState
	if cfg.NoFlush {
		w.DisableFlush()
	}
	if cfg.Ext > 0 {
		ms = &wsflate.MessageState{}
		ms.SetCompressed(cfg.Ext == 2)
	}
	lastExts, lastExtsCopy = nil, nil
	if xs := cfg.extensions(ms); len(xs) > 0 {
		w.SetExtensions(xs...)
		lastExts, lastExtsCopy = xs, append([]wsutil.SendExtension(nil), xs...)
	}
	return ms
}

// lastExts is the slice most recently spread into SetExtensions (it stays the
// application's: SetExtensions(xs...) hands the library the very slice), and
// a copy of its elements.
var lastExts, lastExtsCopy []wsutil.SendExtension

// extsIntact reports whether the application's extension slice still holds
// what it put there.
func extsIntact() bool {
	for i := range lastExts {
		if !sameExt(lastExts[i], lastExtsCopy[i]) {
			return false
		}
	}
	return true
}

// sameExt compares two extension values (function adapters are not
// comparable with ==).
func sameExt(a, b wsutil.SendExtension) bool {
	if a == nil || b == nil {
		return a == nil && b == nil
	}
	va, vb := reflect.ValueOf(a), reflect.ValueOf(b)
	if va.Type() != vb.Type() {
		return false
	}
	if va.Kind() == reflect.Func {
		return va.Pointer() == vb.Pointer()
	}
	return a == b
}

// rsv2Ext is an application extension that marks every frame with RSV2.
type rsv2Ext struct{}

func (rsv2Ext) SetBits(h ws.Header) (ws.Header, error) {
	h.Rsv |= 2
	return h, nil
}

// rsv3Ext marks every frame with RSV3.
type rsv3Ext struct{}

func (rsv3Ext) SetBits(h ws.Header) (ws.Header, error) {
	h.Rsv |= 1
	return h, nil
}

// extensions is the chain the configuration attaches (ms may be nil).
func (c WCfg) extensions(ms *wsflate.MessageState) []wsutil.SendExtension {
	var xs []wsutil.SendExtension
	if c.Ext2 == 2 {
		xs = append(xs, rsv2Ext{})
	}
	if ms != nil {
		xs = append(xs, ms)
	}
	if c.Ext2 == 1 {
		xs = append(xs, rsv2Ext{})
	}
	if c.Ext3 {
		// (Through the function adapter of the package.)
		xs = append(xs, wsutil.SendExtensionFunc(rsv3Ext{}.SetBits))
	}
	return xs
}

// ExecHistory runs ops on w, recording every return value. seed fixes the
// content; check (may be nil) is called after every step.
func ExecHistory(r *eng.Run, wr *WRun, seed uint32, check func(step int)) {
	w := wr.W
	p := wr.Pipe
	for i, op := range wr.Ops {
		ob := StepObs{Op: op}
		switch op.Kind {
		case WOpWrite, WOpWriteEmpty, WOpThrough:
			n := op.N
			if op.Kind == WOpWriteEmpty {
				n = 0
			}
			data := patBytes(seed, wr.Offered, n)
			keep := append([]byte(nil), data...)
			var k int
			// Someone else may be looking at the same slice while it is on
			// its way out (a broadcast): the observer stands at the destination.
			p.OnWrite = func() {
				if wr.Mutated == "" && !bytes.Equal(data, keep) {
					wr.Mutated = fmt.Sprintf("step %d %s: the caller's slice was not intact while the destination was being written to%s", i, op, firstDiff(data, keep))
				}
			}
			if op.Kind == WOpThrough {
				k, ob.Err = w.WriteThrough(data)
			} else if op.Via != 0 {
				k, ob.Err = writeVia(w, op.Via, data)
			} else {
				k, ob.Err = w.Write(data)
			}
			p.OnWrite = nil
			ob.N = int64(k)
			if k < 0 || k > n {
				r.Failf("accepted_count_out_of_range", "%s returned n=%d", op, k)
			}
			if !bytes.Equal(data, keep) && wr.Mutated == "" {
				wr.Mutated = fmt.Sprintf("step %d %s modified the caller's slice%s", i, op, firstDiff(data, keep))
			}
			wr.Accepted = append(wr.Accepted, keep[:k]...)
			wr.Offered += k
		case WOpReadFrom, WOpCopy:
			if op.SrcKind != 0 {
				// A standard in-memory reader over the application's bytes
				// (bytes.NewBuffer does not copy them).
				data := patBytes(seed, wr.Offered, op.N)
				keep := append([]byte(nil), data...)
				var rdr io.Reader
				switch op.SrcKind {
				case 1:
					rdr = bytes.NewReader(data)
				case 2:
					rdr = bytes.NewBuffer(data)
				default:
					rdr = strings.NewReader(string(data))
				}
				if op.Kind == WOpCopy {
					ob.N, ob.Err = io.Copy(w, rdr)
				} else {
					ob.N, ob.Err = w.ReadFrom(rdr)
				}
				if ob.N < 0 || ob.N > int64(op.N) {
					r.Failf("accepted_count_out_of_range", "%s returned n=%d", op, ob.N)
				}
				if !bytes.Equal(data, keep) && wr.Mutated == "" {
					wr.Mutated = fmt.Sprintf("step %d %s modified the bytes the source was built over%s", i, op, firstDiff(data, keep))
				}
				wr.Accepted = append(wr.Accepted, keep[:ob.N]...)
				wr.Offered += int(ob.N)
				if int(ob.N) != op.N && ob.Err == nil {
					r.Failf("bytes_lost", "%s: the source held %d bytes, %d reported accepted, no error", op, op.N, ob.N)
				}
				break
			}
			src := &chunkSrc{data: patBytes(seed, wr.Offered, op.N), chunks: op.Chunks, fail: op.SrcErr, withData: op.SrcEnd, zeros: op.SrcZeros, stall: op.SrcStall}
			if op.Kind == WOpCopy {
				ob.N, ob.Err = io.Copy(w, struct{ io.Reader }{src})
			} else {
				ob.N, ob.Err = w.ReadFrom(src)
			}
			if ob.N < 0 || ob.N > int64(src.produced) {
				r.Failf("accepted_count_out_of_range", "%s returned n=%d, source produced %d", op, ob.N, src.produced)
			}
			wr.Accepted = append(wr.Accepted, src.data[:ob.N]...)
			wr.Offered += int(ob.N)
			if int(ob.N) != src.produced && !p.WriteFailed() {
				r.Failf("bytes_lost", "%s took %d bytes from its source but reports %d accepted", op, src.produced, ob.N)
			}
		case WOpFlushFrag:
			ob.Err = w.FlushFragment()
		case WOpFlush:
			ob.Err = w.Flush()
		case WOpReattach:
			if wr.MS != nil {
				w.SetExtensions(wr.Cfg.extensions(wr.MS)...)
			}
		case WOpSetExt:
			// The application replaces the chain: from now on exactly the new
			// extensions apply (an empty call removes them all).
			c := wr.Cfg
			c.Ext2, c.Ext3 = []int{0, 1, 2, 0}[op.N&3], op.N&4 != 0
			if op.N&8 == 0 {
				c.Ext, wr.MS = 0, nil
			}
			wr.Cfg = c
			xs := c.extensions(wr.MS)
			w.SetExtensions(xs...)
			lastExts, lastExtsCopy = xs, append([]wsutil.SendExtension(nil), xs...)
		case WOpGrow:
			w.Grow(op.N)
			if w.Available() < op.N {
				r.Failf("grow_contract", "after Grow(%d) Available()=%d", op.N, w.Available())
			}
		}
		ob.Size, ob.Available, ob.Buffered = w.Size(), w.Available(), w.Buffered()
		ob.WireLen = len(p.Out)
		ob.DestCalls = len(p.WCalls)
		wr.Obs = append(wr.Obs, ob)
		if check != nil {
			check(i)
		}
	}
}

// ---------------------------------------------------------------------------
// C06

type msgTrack struct {
	start        int  // index in Accepted where the open message starts
	frames       int  // frames emitted for the open message
	sinceFlush   bool // any write-like call since the last final flush
	onlyWrites   bool // the open message was built by plain Write calls only
	startSize    int  // Size() when the open message started
	wireFrames   int  // frames decoded so far in total
	acceptedDone int  // accepted bytes already verified on the wire
	buffered     bool // the open message was built by buffering calls only (Write, ReadFrom, Copy, Grow)
}

// C06: the fragmenting writer emits one well-formed message per flush and
// loses no byte.
// errExtRefuses is what the failing extension of c06ExtFails returns.
var errExtRefuses = errors.New("sim: extension refuses the frame")

// failingExt is a send extension that works failAt times and then refuses.
type failingExt struct{ calls, failAt int }

func (e *failingExt) SetBits(h ws.Header) (ws.Header, error) {
	e.calls++
	if e.calls > e.failAt {
		return h, errExtRefuses
	}
	return h, nil
}

// c06ExtFails: the fault sits in the extension seam instead of the
// destination. Every call must return; once a call has reported the
// extension's error the writer accepts nothing more and sends nothing more
// ("if an error occurs writing to a Writer, no more data will be accepted
// and all subsequent writes will return the error"); what was sent before is
// whole frames.
func c06ExtFails(r *eng.Run) {
	cfg := drawWCfg(r)
	cfg.Ext, cfg.Ext2 = 0, 0
	r.SetEntry("Writer/extension-fails")
	ops := drawHistory(r, cfg, 10)
	seed := r.T.U32(sim.LPaySeed)
	p := NewPipe(r, nil)
	wr := &WRun{Cfg: cfg, Ops: ops, Pipe: p}
	wr.W = NewW(cfg, p)
	applyOptions(wr.W, cfg)
	ext := &failingExt{failAt: r.T.Int(sim.LFaultAt, 4)}
	wr.W.SetExtensions(ext)
	r.Note("C06 %s extension refuses from call %d on; history: %v", cfg, ext.failAt+1, ops)
	fired, sentAtFail := -1, 0
	ExecHistory(r, wr, seed, func(i int) {
		ob := wr.Obs[i]
		if fired >= 0 {
			switch ob.Op.Kind {
			case WOpWrite, WOpWriteEmpty, WOpThrough, WOpFlush, WOpFlushFrag:
				if ob.Err == nil {
					r.Failf("error_not_sticky", "the extension refused a frame during step %d (%s); later step %d %s returned nil", fired, ops[fired], i, ob.Op)
				}
			}
			if len(p.Out) != sentAtFail {
				r.Failf("bytes_after_failure", "the extension refused a frame during step %d (%s); step %d %s sent %d more bytes", fired, ops[fired], i, ob.Op, len(p.Out)-sentAtFail)
			}
			return
		}
		if errors.Is(ob.Err, errExtRefuses) {
			fired, sentAtFail = i, len(p.Out)
			r.Fault("extension_refuses_frame")
		} else if ext.calls > ext.failAt && ob.Err == nil {
			switch ob.Op.Kind {
			case WOpWrite, WOpWriteEmpty, WOpThrough, WOpFlush, WOpFlushFrag:
				r.Failf("extension_error_swallowed", "the extension refused a frame during step %d (%s) but the call returned nil", i, ob.Op)
			}
		}
	})
	if _, rest, err := ref.DecodeAll(p.Out); err != nil || rest != 0 {
		r.Failf("partial_frame_at_call_boundary", "with a refusing extension the %d bytes sent are not whole frames (rest=%d err=%v)", len(p.Out), rest, err)
	}
	r.Res.Nontrivial = fired >= 0
}

// c06Arena: two Writers of one process whose buffers are neighbouring parts
// of one allocation of the application (NewWriterBuffer over arena[:n] and
// arena[n:2n]: the first slice has the second one's memory as spare
// capacity). The first grows (flushing disabled) while the second holds
// unflushed bytes; each must still send exactly what it accepted.
func c06Arena(r *eng.Run) {
	r.SetEntry("Writer/shared-arena")
	n := []int{32, 64, 128, 300}[r.T.Int(sim.LSize, 4)]
	arena := make([]byte, 2*n)
	client := r.T.Bool(sim.LSide)
	st := ws.StateServerSide
	if client {
		st = ws.StateClientSide
	}
	p1, p2 := NewPipe(r, nil), NewPipe(r, nil)
	w1 := wsutil.NewWriterBuffer(p1, st, ws.OpBinary, arena[:n])
	w2 := wsutil.NewWriterBuffer(p2, st, ws.OpBinary, arena[n:])
	w1.DisableFlush()
	b := patBytes(5, 0, 1+r.T.Int(sim.LLen, w2.Size()))
	a := patBytes(6, 0, w1.Size()+1+r.T.Int(sim.LLen, n))
	rand.Seed(int64(r.T.U32(sim.LMisc)))
	if _, err := w2.Write(b); err != nil {
		r.Failf("unexpected_error", "second writer: Write: %v", err)
	}
	if r.T.Bool(sim.LHist) {
		if _, err := w1.Write(a); err != nil { // grows
			r.Failf("unexpected_error", "first writer: Write: %v", err)
		}
	} else {
		if _, err := w1.ReadFrom(bytes.NewReader(a)); err != nil {
			r.Failf("unexpected_error", "first writer: ReadFrom: %v", err)
		}
	}
	if err := w2.Flush(); err != nil {
		r.Failf("unexpected_error", "second writer: Flush: %v", err)
	}
	if err := w1.Flush(); err != nil {
		r.Failf("unexpected_error", "first writer: Flush: %v", err)
	}
	for k, x := range []struct {
		out  []byte
		want []byte
	}{{p1.Out, a}, {p2.Out, b}} {
		fs, rest, err := ref.DecodeAll(x.out)
		if err != nil || rest != 0 {
			r.Failf("partial_frame_at_call_boundary", "writer %d over the shared arena: output is not whole frames (rest=%d err=%v)", k+1, rest, err)
		}
		var got []byte
		for _, f := range fs {
			got = append(got, f.Payload...)
		}
		if !bytes.Equal(got, x.want) {
			r.Failf("payload_mismatch", "writer %d over the shared arena (buffers of %d bytes, client=%v) sent %d payload bytes that are not the %d it accepted%s", k+1, n, client, len(got), len(x.want), firstDiff(got, x.want))
		}
	}
	r.Res.Nontrivial = true
	r.Probe("two_writers_over_one_arena")
}

func C06(r *eng.Run) {
	if r.T.Chance(sim.LEntry, 1, 6) {
		c06WriteMessage(r)
		return
	}
	if r.T.Chance(sim.LEntry, 1, 16) {
		c06Arena(r)
		return
	}
	if r.T.Chance(sim.LEntry, 1, 10) {
		c06ExtFails(r)
		return
	}
	cfg := drawWCfg(r)
	if cfg.NoFlush && r.T.Bool(sim.LCfg) {
		cfg.PlainOnly = true
	}
	manyFrags := 0
	if r.T.Chance(sim.LEntry, 1, 1500) {
		// One message in very many fragments: a tiny buffer and a long copy
		// (more fragments than an 8 or 16 bit counter can count).
		cfg.Ctor, cfg.Size, cfg.NoFlush, cfg.PlainOnly = 1, 1+r.T.Int(sim.LSize, 3), false, false
		manyFrags = []int{300, 70000, 140000}[r.T.Int(sim.LLen, 3)]
		r.Probe("message_in_very_many_fragments")
	}
	cfg.SwapExt = !cfg.PlainOnly && r.T.Chance(sim.LCfg, 1, 4)
	cfg.NoSide = !cfg.Client && r.T.Chance(sim.LCfg, 1, 8)
	r.SetEntry("Writer/" + ctorNames[cfg.Ctor])
	ops := drawHistory(r, cfg, 12)
	if manyFrags > 0 {
		ops = []WOp{{Kind: WOpReadFrom, N: manyFrags, Chunks: []int{manyFrags}, SrcEnd: r.T.Bool(sim.LFault)}, {Kind: WOpFlush}, {Kind: WOpWrite, N: 1}, {Kind: WOpFlush}}
	}
	seed := r.T.U32(sim.LPaySeed)
	p := NewPipe(r, nil)
	wr := &WRun{Cfg: cfg, Ops: ops, Pipe: p}
	wr.W = NewW(cfg, p)
	wr.MS = applyOptions(wr.W, cfg)
	wr.Size0 = wr.W.Size()
	r.Note("C06 %s Size()=%d history: %v", cfg, wr.Size0, ops)
	if cfg.Ctor == 1 && cfg.Size > 0 && wr.Size0 < cfg.Size {
		// "output frames payload length could be up to n": a message of n
		// bytes fits the sized writer and leaves as one frame.
		r.Failf("sized_writer_too_small", "NewWriterSize(%d) on %s: Size()=%d, a message of %d bytes would not leave as a single frame", cfg.Size, cfg, wr.Size0, cfg.Size)
	}
	r.Res.Nontrivial = len(ops) > 1
	tr := &msgTrack{onlyWrites: true, buffered: true, startSize: wr.Size0}
	ExecHistory(r, wr, seed, func(i int) { c06Step(r, wr, tr, i) })
	if wr.Mutated != "" {
		r.FailProp("C17", "caller_slice_modified", "%s: %s", cfg, wr.Mutated)
	}
	// (A writer from NewWriterSize with a power-of-two size is one the pool
	// actually keeps when it is released with PutWriter.)
	poolable := cfg.Ctor == 1 && cfg.Size >= 128 && cfg.Size&(cfg.Size-1) == 0
	if cfg.Ctor == 4 || poolable {
		// Back to the pool, and the next user of that size class (maybe on
		// the other side) gets a writer from GetWriter again: whatever the
		// pool hands out must be a well-behaved writer.
		wsutil.PutWriter(wr.W)
		if !extsIntact() {
			r.FailProp("C17", "caller_slice_modified", "%s: PutWriter changed the slice of extensions the application had spread into SetExtensions", cfg)
		}
		cfg2 := cfg
		cfg2.Ctor = 4
		if poolable {
			r.Probe("sized_writer_released_to_the_pool")
		}
		cfg2.Client, cfg2.NoFlush, cfg2.Ext, cfg2.Ext2 = r.T.Bool(sim.LSide), false, 0, 0
		cfg2.Ext3, cfg2.SwapExt, cfg2.NoSide = false, false, false
		if cfg2.Size < 7 {
			cfg2.Size = 7 // smaller buffers cannot hold a client header (documented panic)
		}
		p2 := NewPipe(r, nil)
		wr2 := &WRun{Cfg: cfg2, Ops: drawHistory(r, cfg2, 6), Pipe: p2}
		wr2.W = NewW(cfg2, p2)
		wr2.Size0 = wr2.W.Size()
		if wr2.W == wr.W {
			r.Probe("pool_returned_same_writer")
		}
		tr2 := &msgTrack{onlyWrites: true, buffered: true, startSize: wr2.Size0}
		ExecHistory(r, wr2, seed+1, func(i int) { c06Step(r, wr2, tr2, i) })
		wsutil.PutWriter(wr2.W)
	}
}

func c06Step(r *eng.Run, wr *WRun, tr *msgTrack, i int) {
	cfg, ob, p := wr.Cfg, wr.Obs[i], wr.Pipe
	op := ob.Op
	// Fault-free destination: no call may fail, except the documented
	// refusals.
	switch {
	case ob.Err == nil:
	case op.Kind == WOpThrough && ob.Err == wsutil.ErrNotEmpty && ob.N == 0:
		r.Probe("write_through_refused_not_empty")
	case (op.Kind == WOpReadFrom || op.Kind == WOpCopy) && op.SrcErr && ob.Err == ErrInjected:
		r.Probe("readfrom_source_error")
	case (op.Kind == WOpReadFrom || op.Kind == WOpCopy) && op.SrcStall && ob.Err == io.ErrNoProgress:
		r.Probe("readfrom_source_stalled")
	default:
		r.Failf("unexpected_error", "step %d %s on a healthy destination returned %v", i, op, ob.Err)
	}
	if (op.Kind == WOpWrite || op.Kind == WOpWriteEmpty) && int(ob.N) != opLen(op) {
		r.Failf("short_write", "step %d %s accepted %d bytes without error", i, op, ob.N)
	}
	if op.Kind == WOpThrough && ob.Err == nil && int(ob.N) != op.N {
		r.Failf("short_write", "step %d %s accepted %d bytes without error", i, op, ob.N)
	}
	// 1. Whole frames at every call boundary.
	fs, rest, err := ref.DecodeAll(p.Out)
	if err != nil || rest != 0 {
		r.Failf("partial_frame_at_call_boundary", "after step %d %s the %d bytes sent do not end on a frame boundary (rest=%d, err=%v)", i, op, len(p.Out), rest, err)
	}
	newFrames := fs[tr.wireFrames:]
	tr.wireFrames = len(fs)
	// Bookkeeping of the model.
	switch op.Kind {
	case WOpWrite, WOpWriteEmpty:
		tr.sinceFlush = true
	case WOpReadFrom, WOpCopy:
		tr.sinceFlush = true
		if !(op.SrcEnd && !op.SrcErr && !op.SrcStall && op.N > 0) {
			// (A source that hands its last bytes over together with io.EOF
			// lets the writer know that the data has ended before the buffer
			// would have to be flushed: such a copy counts like plain writes
			// for "data that fits the buffer leaves as a single frame". A
			// source that reports the end in a separate call does not: a
			// buffer that is exactly full by then has been flushed as a
			// fragment - not demanded otherwise, DESIGN §4 C06.)
			tr.onlyWrites = false
		}
	case WOpThrough:
		tr.sinceFlush = true
		tr.onlyWrites = false
		tr.buffered = false
	case WOpFlushFrag:
		tr.onlyWrites = false
		tr.buffered = false
	}
	if op.Kind == WOpThrough && ob.Err == nil {
		r.Probe("write_through_path")
	}
	if op.Kind == WOpWrite && ob.Buffered == 0 && op.N > 0 {
		r.Probe("large_write_bypassed_buffer")
	}
	if op.Kind == WOpWrite && ob.Available == 0 && ob.Buffered > 0 {
		r.Probe("buffer_exactly_full")
	}
	if op.Kind == WOpGrow && ob.Size > tr.startSize {
		r.Probe("grow_path")
	}
	// 2. Frame well-formedness, frame by frame.
	framesBefore := tr.frames // frames of the open message sent by earlier steps
	for _, f := range newFrames {
		first := tr.frames == 0
		wantOp := byte(ref.OpCont)
		if first {
			wantOp = cfg.Op
		}
		if f.Op != wantOp {
			r.Failf("wrong_opcode", "after step %d %s: frame %d of the message has opcode %d, expected %d", i, op, tr.frames, f.Op, wantOp)
		}
		wantRsv := byte(0)
		if first && cfg.Ext == 2 {
			wantRsv = 4
		}
		if cfg.Ext2 > 0 {
			wantRsv |= 2 // every extension of the chain contributes its bits
		}
		if cfg.Ext3 {
			wantRsv |= 1
		}
		if f.Rsv != wantRsv {
			r.FailProp(rsvProp(cfg), "wrong_rsv", "after step %d %s: frame %d of the message has rsv=%d, expected %d (ext=%d)", i, op, tr.frames, f.Rsv, wantRsv, cfg.Ext)
		}
		if f.Masked != cfg.Client {
			r.Failf("wrong_mask_bit", "after step %d %s: frame masked=%v on client=%v", i, op, f.Masked, cfg.Client)
		}
		// Payload = next accepted bytes.
		end := tr.acceptedDone + len(f.Payload)
		if end > len(wr.Accepted) || !bytes.Equal(f.Payload, wr.Accepted[tr.acceptedDone:end]) {
			have := wr.Accepted[minInt(tr.acceptedDone, len(wr.Accepted)):]
			r.Failf("payload_mismatch", "after step %d %s: frame %d carries %d bytes that are not the next accepted bytes (accepted so far %d, verified %d)%s",
				i, op, tr.frames, len(f.Payload), len(wr.Accepted), tr.acceptedDone, firstDiff(f.Payload, have))
		}
		tr.acceptedDone = end
		tr.frames++
		if f.Fin {
			if op.Kind != WOpFlush {
				r.Failf("final_frame_without_flush", "step %d %s emitted a final frame", i, op)
			}
			if f != newFrames[len(newFrames)-1] {
				r.Failf("frames_after_final", "step %d %s emitted frames after the final one", i, op)
			}
		}
	}
	// 3. Per-operation clauses.
	switch op.Kind {
	case WOpFlush:
		emittedFinal := len(newFrames) > 0 && newFrames[len(newFrames)-1].Fin
		pending := len(wr.Accepted) - tr.start
		switch {
		case !tr.sinceFlush && framesBefore == 0:
			if len(newFrames) != 0 {
				r.Failf("flush_of_nothing_emits", "step %d: Flush with nothing written since the last Flush emitted %d frame(s)", i, len(newFrames))
			}
			r.Probe("flush_of_nothing")
		case pending > 0 || tr.frames > 0:
			if !emittedFinal {
				r.Failf("message_not_finished", "step %d: Flush did not emit a final frame for a message with %d accepted bytes and %d frames", i, pending, tr.frames)
			}
		}
		if emittedFinal || len(newFrames) == 0 {
			// Message closed (or nothing to close).
			if tr.acceptedDone != len(wr.Accepted) {
				r.Failf("bytes_lost", "after Flush (step %d) %d accepted bytes never reached the destination", i, len(wr.Accepted)-tr.acceptedDone)
			}
			if emittedFinal {
				if tr.onlyWrites && pending <= tr.startSize && tr.frames != 1 {
					r.Failf("fits_buffer_but_fragmented", "message of %d bytes (plain Write calls, copies from sources that end together with their last bytes) into a writer of Size()=%d left as %d frames", pending, tr.startSize, tr.frames)
				}
				if cfg.NoFlush && tr.buffered && tr.frames != 1 {
					r.Failf("noflush_fragmented", "DisableFlush: message of %d bytes left as %d frames", pending, tr.frames)
				}
				if tr.onlyWrites && pending <= tr.startSize {
					r.Probe("single_frame_message")
				}
			}
			tr.start = len(wr.Accepted)
			tr.frames = 0
			tr.sinceFlush = false
			tr.onlyWrites = true
			tr.buffered = true
			tr.startSize = ob.Size
		}
	case WOpWrite, WOpWriteEmpty, WOpGrow, WOpReadFrom, WOpCopy:
		// DisableFlush "denies Writer to write fragments": buffering calls
		// grow the buffer instead.
		if cfg.NoFlush && tr.buffered && len(newFrames) != 0 {
			r.Failf("noflush_sent_early", "DisableFlush: step %d %s sent %d frame(s) before Flush", i, op, len(newFrames))
		}
	}
	if ob.Buffered != len(wr.Accepted)-tr.acceptedDone {
		r.Failf("buffered_mismatch", "after step %d %s Buffered()=%d but %d accepted bytes are not on the wire", i, op, ob.Buffered, len(wr.Accepted)-tr.acceptedDone)
	}
}

func rsvProp(cfg WCfg) string {
	if cfg.Ext > 0 {
		return "C13"
	}
	return "C06"
}

func opLen(op WOp) int {
	if op.Kind == WOpWriteEmpty {
		return 0
	}
	return op.N
}

// c06WriteMessage covers wsutil.WriteMessage and its six variants.
func c06WriteMessage(r *eng.Run) {
	client := r.T.Bool(sim.LSide)
	variant := r.T.Int(sim.LEntry, 4)
	op := byte(ref.OpText)
	if r.T.Bool(sim.LOp) {
		op = ref.OpBinary
	}
	r.SetEntry("WriteMessage")
	budget := 1 << 20
	n := drawLen(r, dataLens, &budget)
	data := patBytes(r.T.U32(sim.LPaySeed), 0, n)
	keep := append([]byte(nil), data...)
	p := NewPipe(r, nil)
	var err error
	switch {
	case variant == 0:
		st := ws.StateServerSide
		if client {
			st = ws.StateClientSide
		}
		// Further bits of the state value make no difference; a value with
		// neither side bit is not client-side.
		st |= []ws.State{0, 0, ws.StateExtended, ws.StateFragmented, ws.StateExtended | ws.StateFragmented}[r.T.Int(sim.LCfg, 5)]
		if !client && r.T.Chance(sim.LCfg, 1, 4) {
			st = st.Clear(ws.StateServerSide)
			r.Probe("write_message_state_without_side")
		}
		err = wsutil.WriteMessage(p, st, ws.OpCode(op), data)
	case variant == 1 && client:
		err = wsutil.WriteClientMessage(p, ws.OpCode(op), data)
	case variant == 1:
		err = wsutil.WriteServerMessage(p, ws.OpCode(op), data)
	case variant == 2 && client:
		op = ref.OpText
		err = wsutil.WriteClientText(p, data)
	case variant == 2:
		op = ref.OpText
		err = wsutil.WriteServerText(p, data)
	case client:
		op = ref.OpBinary
		err = wsutil.WriteClientBinary(p, data)
	default:
		op = ref.OpBinary
		err = wsutil.WriteServerBinary(p, data)
	}
	r.Note("C06 WriteMessage variant=%d client=%v op=%d len=%d", variant, client, op, n)
	if err != nil {
		r.Failf("unexpected_error", "WriteMessage on a healthy destination: %v", err)
	}
	if !bytes.Equal(data, keep) {
		r.FailProp("C17", "caller_slice_modified", "WriteMessage(client=%v) modified the caller's %d byte slice%s", client, n, firstDiff(data, keep))
	}
	fs, rest, derr := ref.DecodeAll(p.Out)
	if derr != nil || rest != 0 || len(fs) != 1 {
		r.Failf("not_one_frame", "WriteMessage produced %d frames (rest=%d err=%v)", len(fs), rest, derr)
	}
	f := fs[0]
	if !f.Fin || f.Op != op || f.Rsv != 0 || f.Masked != client || !bytes.Equal(f.Payload, keep) {
		r.Failf("wrong_frame", "WriteMessage produced %s, expected final opcode %d masked=%v with the %d byte payload%s", frameStr(f), op, client, n, firstDiff(f.Payload, keep))
	}
	// The destination must not be affected by the caller reusing its slice.
	for i := range data {
		data[i] ^= 0xff
	}
	fs2, _, _ := ref.DecodeAll(p.Out)
	if !bytes.Equal(fs2[0].Payload, keep) {
		r.FailProp("C17", "wire_aliases_caller_slice", "bytes handed to the destination changed when the caller scribbled on its slice")
	}
	_ = rand.Int
}
