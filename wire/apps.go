package wire

import (
	"bufio"
	"bytes"
	"errors"
	"io"

	"github.com/gobwas/ws"
	"github.com/gobwas/ws/wsutil"

	"verif/eng"
	"verif/ref"
	"verif/sim"
)

// Read-side entry points ("applications" written against the documented API).
const (
	AppReader      = iota // wsutil.Reader loop: NextFrame / Read / Discard, callbacks
	AppNextReader         // wsutil.NextReader per message
	AppReadMessage        // wsutil.ReadMessage (+Client/Server variants)
	AppReadData           // wsutil.ReadData and the six side/opcode variants
	AppReadFrame          // ws.ReadFrame
	NumApps
)

var appNames = [...]string{"Reader", "NextReader", "ReadMessage", "ReadData", "ReadFrame"}

// ReadCfg configures a read-side application.
type ReadCfg struct {
	App          int
	Side         ref.Side // side of the endpoint under test
	Extended     bool
	Exts         []wsutil.RecvExtension
	CheckUTF8    bool
	MaxFrameSize int64
	SkipCheck    bool
	Variant      int // ReadData: 0 generic 1 side Data 2 Text 3 Binary; ReadMessage: 0 generic 1 side
	OnCont       bool
	OnInter      int // 0 none 1 read all 2 read nothing 3 read part
	SeedMsgs     bool
	NoDiscard    bool // the application always reads units to their end
	// MustRead, if set, says which units (by index of top-level unit handed
	// over by NextFrame) must be read to their end.
	MustRead func(unit int) bool
	// AfterUTF8Error: the application answers ErrInvalidUTF8 by discarding
	// the rest of the message and carrying on with the next one.
	AfterUTF8Error bool
	// SkipEmpty: units announced with Length 0 are not read at all before the
	// next NextFrame (there is nothing to receive or discard).
	SkipEmpty bool
	// ProbeAfterError: after NextFrame refused a frame, the application calls
	// Read once more; what that returns is recorded in Outcome.AfterErr.
	ProbeAfterError bool
	// ProbeIdle: after a data message has been read to its end or discarded,
	// the application calls Read without NextFrame; like a new Reader, the
	// Reader must answer (0, ErrNoFrameAdvance).
	ProbeIdle bool
	// Bufio > 0: Reader.Source is a *bufio.Reader of that size over the transport.
	Bufio int
	// CopyValue: the Reader value is copied between top-level units and the
	// copy used from then on (AppReader).
	CopyValue bool
	// InterErr: the OnIntermediate handler (mode 1, reads everything) returns
	// an error of its own after each control frame; the application repeats
	// the call (Read, Discard) that handed it on.
	InterErr bool
	// ZeroBuf: the application now and then calls Read with an empty buffer.
	ZeroBuf bool
	// CopyDrain: units that are read to their end are drained with io.Copy
	// (which prefers a WriteTo method of the reader if there is one) instead
	// of a Read loop.
	CopyDrain bool
	// PerFrame: data messages are consumed frame by frame (NextFrame, then
	// exactly Header.Length bytes), like a relay would (needs OnInter == 0,
	// no OnCont, no CheckUTF8).
	PerFrame bool
	// Retry: the application retries a Read that failed with a temporary
	// net.Error (the transport is told where to fail: Pipe.Transient).
	Retry bool
	// RereadAfterUTF8: after Read refused a text message the application
	// calls Read once more.
	RereadAfterUTF8 bool
	// ContErr: the OnContinuation handler may refuse the final fragment of a
	// message; the application answers with Discard and goes on (needs OnCont).
	ContErr bool
	// OnContRead: the OnContinuation handler reads part of the fragment's
	// body itself (units are then always read to their end).
	OnContRead bool
	// SwapSource: after every finished top-level unit the application assigns
	// Reader.Source anew (a pooled Reader handed to the next user, a wrapper
	// put around the connection); the value it replaced must not be read again.
	SwapSource bool
}

// swapSrc is one value of Reader.Source under ReadCfg.SwapSource.
type swapSrc struct {
	r        io.Reader
	run      *eng.Run
	replaced bool
}

func (s *swapSrc) Read(b []byte) (int, error) {
	if s.replaced {
		s.run.FailProp("C18", "reader_uses_replaced_source", "the Reader read from a Source value the application had replaced after the previous message (a new Reader would only know the new one)")
	}
	return s.r.Read(b)
}

func (c ReadCfg) Name() string {
	n := appNames[c.App]
	if c.App == AppReadData {
		n += [...]string{"", ".SideData", ".Text", ".Binary"}[c.Variant]
	}
	if c.App == AppReadMessage && c.Variant == 1 {
		n += ".Side"
	}
	return n
}

func (c ReadCfg) State() ws.State {
	s := ws.StateServerSide
	if c.Side == ref.Client {
		s = ws.StateClientSide
	}
	if c.Extended {
		s |= ws.StateExtended
	}
	return s
}

// Rec is one thing an application was handed.
type Rec struct {
	Kind     byte // 'M' data message, 'C' control frame outside a message, 'I' control frame between fragments
	Op       byte
	Data     []byte
	Partial  bool // the application stopped reading on purpose (Discard) after Data
	NoData   bool // the application did not look at the payload at all
	Hdr      ws.Header
	HasHdr   bool
	HdrAt    int  // transport bytes consumed when the header was handed over (-1 unknown)
	EndAt    int  // transport bytes consumed when the unit was complete (-1 unknown)
	Short    bool // 'I': the handler's reader ended cleanly before Hdr.Length bytes
	Failed   bool // handed over by an API call that then returned an error (ReadMessage)
	Rejected bool // 'M': reading ended in ErrInvalidUTF8; the application discarded the rest and went on
}

// ContRec is an OnContinuation callback observation.
type ContRec struct {
	Hdr ws.Header
	At  int
}

// Outcome is everything an application observed.
type Outcome struct {
	Recs      []Rec
	Conts     []ContRec
	Open      *Rec   // unit being read when the terminal error occurred
	Err       error  // terminal error (always non-nil when the app returns: streams end)
	ErrAt     string // API call that returned it
	Calls     int
	ZeroRds   int
	AfterErr  []byte // bytes a Read handed out after NextFrame had refused a frame
	ZeroBuf   bool   // the application now and then calls Read with an empty buffer
	CopyDrain bool   // units read to their end are drained with io.Copy
	zeroSalt  uint64
	nreads    int
	Retry     bool // the application retries a Read that failed with a temporary net.Error
	retried   bool
}

var bufSizes = [...]int{4096, 1, 2, 3, 5, 8, 16, 64, 512, 70000}

func drawBuf(r *eng.Run) int { return bufSizes[r.T.Int(sim.LBuf, len(bufSizes))] }

const maxZeroReads = 5000

// errContHandler is what a refusing OnContinuation handler returns.
var errContHandler = errors.New("sim: application handler refuses the fragment")

// RunApp drives one read-side application over the pipe until the stream ends
// or an API call fails.
func RunApp(r *eng.Run, p *Pipe, cfg ReadCfg) *Outcome {
	o := &Outcome{ZeroBuf: cfg.ZeroBuf, Retry: cfg.Retry, CopyDrain: cfg.CopyDrain && !cfg.ZeroBuf && !cfg.Retry}
	switch cfg.App {
	case AppReader:
		appReader(r, p, cfg, o)
	case AppNextReader:
		appNextReader(r, p, cfg, o)
	case AppReadMessage:
		appReadMessage(r, p, cfg, o)
	case AppReadData:
		appReadData(r, p, cfg, o)
	case AppReadFrame:
		appReadFrame(r, p, cfg, o)
	}
	return o
}

// readUnit reads the current unit of rd (message or top-level control frame)
// the way the tape says. It returns false if a terminal error occurred.
type writerFunc func([]byte) (int, error)

func (f writerFunc) Write(b []byte) (int, error) { return f(b) }

// errInterSeen is the application's own "a control frame was handled" error.
var errInterSeen = errors.New("sim: the application's handler has seen a control frame")

func readUnit(r *eng.Run, p *Pipe, rd io.Reader, discard0 func() error, rec *Rec, o *Outcome, allowDiscard bool) bool {
	discard := func() error {
		for {
			err := discard0()
			if !errors.Is(err, errInterSeen) {
				return err
			}
		}
	}
	act := 0
	if allowDiscard {
		act = r.T.Int(sim.LAct, 6) // 0..3 read all, 4 partial then discard, 5 discard now
	}
	buf := make([]byte, drawBuf(r))
	if act == 5 {
		rec.NoData = true
		rec.Partial = true
		r.Probe("discard_unread")
		if err := discard(); err != nil {
			o.Open, o.Err, o.ErrAt = rec, err, "Discard"
			return false
		}
		return true
	}
	want := -1
	if act == 4 {
		want = r.T.Int(sim.LAct, int(rec.Hdr.Length)+2)
	}
	if o.CopyDrain && act < 4 {
		// io.Copy: the reader's own WriteTo if it has one, else a Read loop
		// (the destination offers nothing but Write).
		// (Appended as it arrives: a continuation handler that takes bytes
		// itself appends to the same record in between.)
		_, err := io.Copy(writerFunc(func(b []byte) (int, error) {
			rec.Data = append(rec.Data, b...)
			return len(b), nil
		}), rd)
		r.Probe("unit_drained_with_io_copy")
		if err != nil {
			o.Open, o.Err, o.ErrAt = rec, err, "Read"
			return false
		}
		return true
	}
	for {
		if want >= 0 && len(rec.Data) >= want {
			rec.Partial = true
			r.Probe("discard_partial")
			if err := discard(); err != nil {
				o.Open, o.Err, o.ErrAt = rec, err, "Discard"
				return false
			}
			return true
		}
		b := buf
		if o.ZeroBuf && o.zeroSalt == 0 {
			o.zeroSalt = 1 + uint64(r.T.U32(sim.LAct))
		}
		o.nreads++
		if o.ZeroBuf && sim.Mix(o.zeroSalt, uint64(o.nreads))%8 == 0 {
			b = buf[:0] // "nothing happened" is the only legal answer besides the end of the message
			r.Probe("read_with_empty_buffer")
		}
		n, err := rd.Read(b)
		if n < 0 || n > len(b) {
			r.Failf("read_count_out_of_range", "Read returned n=%d for a %d byte buffer", n, len(buf))
		}
		rec.Data = append(rec.Data, buf[:n]...)
		if err == io.EOF {
			return true
		}
		if errors.Is(err, errInterSeen) {
			continue
		}
		if err != nil && o.Retry && !o.retried && errors.Is(err, ErrInjectedNet) {
			// A temporary transport error (missed read deadline): the
			// application extends the deadline and reads on.
			o.retried = true
			r.Probe("read_retried_after_temporary_error")
			continue
		}
		if err != nil {
			o.Open, o.Err, o.ErrAt = rec, err, "Read"
			return false
		}
		if n > 0 {
			o.ZeroRds = 0 // consecutive empty reads are what counts as not making progress
		}
		if n == 0 && len(b) > 0 {
			o.ZeroRds++
			if o.ZeroRds > maxZeroReads {
				panic(eng.Hang{What: "Reader.Read keeps returning (0, nil)"})
			}
		}
	}
}

func appReader(r *eng.Run, p *Pipe, cfg ReadCfg, o *Outcome) {
	var src io.Reader = p
	pos := p.Consumed
	if cfg.Bufio > 0 {
		// The application reads the connection through its own bufio.Reader
		// (the usual arrangement after a handshake that returned one).
		br := bufio.NewReaderSize(p, cfg.Bufio)
		src = br
		pos = func() int { return p.Consumed() - br.Buffered() }
		r.Probe("reader_source_is_bufio_reader")
	}
	var curSrc *swapSrc
	if cfg.SwapSource {
		curSrc = &swapSrc{r: src, run: r}
		src = curSrc
	}
	rd := &wsutil.Reader{
		Source:          src,
		State:           cfg.State(),
		CheckUTF8:       cfg.CheckUTF8,
		MaxFrameSize:    cfg.MaxFrameSize,
		SkipHeaderCheck: cfg.SkipCheck,
		Extensions:      cfg.Exts,
	}
	// ... or through the constructors, the options set afterwards (the same
	// Reader by their documentation). Decided by the payload seed of the run,
	// not by a draw of its own.
	switch st := cfg.State(); {
	case len(p.In)%3 == 1:
		rd = wsutil.NewReader(src, st)
		r.Probe("reader_from_a_constructor")
	case len(p.In)%3 == 2 && st == ws.StateClientSide:
		rd = wsutil.NewClientSideReader(src)
		r.Probe("reader_from_a_constructor")
	case len(p.In)%3 == 2 && st == ws.StateServerSide:
		rd = wsutil.NewServerSideReader(src)
		r.Probe("reader_from_a_constructor")
	}
	rd.CheckUTF8, rd.MaxFrameSize, rd.SkipHeaderCheck, rd.Extensions = cfg.CheckUTF8, cfg.MaxFrameSize, cfg.SkipCheck, cfg.Exts
	if cfg.OnInter > 0 {
		mode := cfg.OnInter
		rd.OnIntermediate = func(h ws.Header, src io.Reader) error {
			rec := Rec{Kind: 'I', Op: byte(h.OpCode), Hdr: h, HasHdr: true, HdrAt: pos(), EndAt: -1}
			var err error
			switch mode {
			case 1:
				buf := make([]byte, drawBuf(r))
				for err == nil {
					var n int
					n, err = src.Read(buf)
					rec.Data = append(rec.Data, buf[:n]...)
				}
				if err == io.EOF {
					err = nil
					if int64(len(rec.Data)) < h.Length {
						rec.Short = true
					}
				}
			case 2:
				rec.NoData = true
				rec.Partial = true
			case 3:
				want := r.T.Int(sim.LAct, int(h.Length)+1)
				buf := make([]byte, 1+want)
				for len(rec.Data) < want && err == nil {
					var n int
					n, err = src.Read(buf[:minInt(len(buf), want-len(rec.Data))])
					rec.Data = append(rec.Data, buf[:n]...)
				}
				rec.Partial = true
				if err == io.EOF {
					err = nil
					rec.Short = true
				}
			}
			rec.Failed = err != nil // the handler's reader reported the failure
			o.Recs = append(o.Recs, rec)
			if err == nil && cfg.InterErr && mode == 1 {
				// The handler has taken the whole frame and tells its
				// application so with an error of its own ("pong seen"); the
				// application carries on with the call that returned it.
				r.Probe("intermediate_handler_returns_its_own_error")
				return errInterSeen
			}
			return err
		}
	}
	var cur *Rec // the unit being read
	if cfg.OnCont {
		rd.OnContinuation = func(h ws.Header, src io.Reader) error {
			o.Conts = append(o.Conts, ContRec{h, pos()})
			if cfg.ContErr && h.Fin && r.T.Bool(sim.LAct) {
				// The application's handler refuses the last fragment (a size
				// limit of its own, say); the application then gives the
				// message up with Discard and carries on.
				r.Probe("continuation_handler_refuses_final_fragment")
				return errContHandler
			}
			if cfg.OnContRead && cur != nil {
				// The handler takes the first bytes of the fragment itself;
				// they are message data like any other.
				want := h.Length
				if want < 0 || want > 1<<20 {
					want = 1 << 20 // a changed tree may announce anything
				}
				b, err := io.ReadAll(io.LimitReader(src, int64(r.T.Int(sim.LAct, int(want)+1))))
				cur.Data = append(cur.Data, b...)
				r.Probe("continuation_handler_reads_body")
				if err != nil && err != io.EOF && err != io.ErrUnexpectedEOF {
					return err
				}
			}
			return nil
		}
	}
	for {
		o.Calls++
		if cfg.CopyValue && o.Calls%2 == 0 {
			// Between two messages the application moves its Reader (stored
			// by value in a struct that is copied, say): the copy goes on,
			// the original is not used again.
			cp := *rd
			rd = &cp
			r.Probe("reader_value_copied_between_messages")
		}
		h, err := rd.NextFrame()
		if err != nil {
			o.Err, o.ErrAt = err, "NextFrame"
			if cfg.ProbeAfterError && err != io.EOF {
				buf := make([]byte, 64)
				n, _ := rd.Read(buf)
				if n > 0 {
					o.AfterErr = append(o.AfterErr, buf[:n]...)
				}
			}
			return
		}
		rec := &Rec{Kind: 'M', Op: byte(h.OpCode), Hdr: h, HasHdr: true, HdrAt: pos()}
		if h.OpCode.IsControl() {
			rec.Kind = 'C'
		}
		if cfg.SkipEmpty && h.Length == 0 && h.Fin {
			rec.EndAt = pos()
			o.Recs = append(o.Recs, *rec)
			continue
		}
		if cfg.PerFrame && rec.Kind == 'M' {
			// A relay: frame by frame, exactly the announced number of bytes
			// of each, NextFrame in between (control frames between the
			// fragments are taken care of by the Reader: no handler is set).
			cur, failed := h, false
			for !failed {
				if cur.Length > 0 {
					// Never sized by the announced length: a header handed over
					// by a changed tree may announce anything.
					b, err := io.ReadAll(io.LimitReader(rd, cur.Length))
					rec.Data = append(rec.Data, b...)
					if err == nil && int64(len(b)) < cur.Length {
						err = io.ErrUnexpectedEOF
					}
					if err != nil {
						o.Open, o.Err, o.ErrAt = rec, err, "Read"
						failed = true
						break
					}
				}
				if cur.Fin {
					break
				}
				for {
					var err error
					if cur, err = rd.NextFrame(); err != nil {
						o.Open, o.Err, o.ErrAt = rec, err, "NextFrame"
						failed = true
						break
					}
					if !cur.OpCode.IsControl() {
						break
					}
				}
			}
			if failed {
				return
			}
			r.Probe("message_consumed_frame_by_frame")
			rec.EndAt = pos()
			o.Recs = append(o.Recs, *rec)
			continue
		}
		allow := !cfg.NoDiscard && !cfg.OnContRead && !cfg.ContErr
		if allow && cfg.MustRead != nil && cfg.MustRead(len(topLevel(o.Recs))) {
			allow = false
		}
		cur = rec
		if !readUnit(r, p, rd, rd.Discard, rec, o, allow) {
			// (Only when the refusal came out of Read: a Discard that was
			// itself refused has not discarded the message.)
			if cfg.ContErr && errors.Is(o.Err, errContHandler) && o.ErrAt == "Read" {
				if derr := rd.Discard(); derr == nil {
					rec.Partial = true
					rec.EndAt = -1
					o.Recs = append(o.Recs, *rec)
					o.Open, o.Err, o.ErrAt = nil, nil, ""
					continue
				}
			}
			if cfg.RereadAfterUTF8 && o.Err == wsutil.ErrInvalidUTF8 && o.ErrAt == "Read" {
				// A consumer that asks again after the refusal (a drain loop,
				// io.ReadAtLeast): the refused message must not turn into a
				// clean end.
				var b [16]byte
				if n, err := rd.Read(b[:]); err == io.EOF || (err == nil && n > 0) {
					r.Failf("invalid_text_delivered", "Reader: after Read had refused the text message with ErrInvalidUTF8, the next Read returned (%d, %v)", n, err)
				}
				r.Probe("read_again_after_invalid_utf8")
			}
			if cfg.AfterUTF8Error && o.Err == wsutil.ErrInvalidUTF8 && o.ErrAt == "Read" {
				if derr := rd.Discard(); derr == nil {
					rec.Rejected, rec.Partial = true, true
					rec.EndAt = -1
					o.Recs = append(o.Recs, *rec)
					o.Open, o.Err, o.ErrAt = nil, nil, ""
					continue
				}
			}
			return
		}
		rec.EndAt = pos()
		o.Recs = append(o.Recs, *rec)
		if cfg.ProbeIdle && rec.Kind == 'M' {
			var b [8]byte
			if n, err := rd.Read(b[:]); n != 0 || err != wsutil.ErrNoFrameAdvance {
				r.Failf("reader_not_as_new_after_message", "Read without NextFrame after a finished message returned (%d, %v); a new Reader returns (0, %v)", n, err, wsutil.ErrNoFrameAdvance)
			}
			r.Probe("read_without_next_frame_after_message")
		}
		if cfg.SwapSource {
			curSrc.replaced = true
			curSrc = &swapSrc{r: curSrc.r, run: r}
			rd.Source = curSrc
			r.Probe("reader_source_replaced_between_messages")
		}
	}
}

// topLevel filters the units handed over by NextFrame (not by callbacks).
func topLevel(recs []Rec) []Rec {
	var out []Rec
	for _, x := range recs {
		if x.Kind != 'I' {
			out = append(out, x)
		}
	}
	return out
}

// helperSrc is the connection as the helper applications hold it: the
// transport itself, or - cfg.Bufio > 0 - behind the bufio.Reader (or
// ReadWriter) a handshake left them with.
func helperSrc(r *eng.Run, p *Pipe, cfg ReadCfg) (rw io.ReadWriter, pos func() int, flush func()) {
	if cfg.Bufio == 0 {
		return p, p.Consumed, func() {}
	}
	br := bufio.NewReaderSize(p, cfg.Bufio)
	pos = func() int { return p.Consumed() - br.Buffered() }
	r.Probe("read_helpers_over_bufio_reader")
	if cfg.Bufio%2 == 1 {
		bw := bufio.NewReadWriter(br, bufio.NewWriterSize(p, 64))
		return bw, pos, func() { bw.Flush() }
	}
	return struct {
		*bufio.Reader
		io.Writer
	}{br, p}, pos, func() {}
}

func appNextReader(r *eng.Run, p *Pipe, cfg ReadCfg, o *Outcome) {
	src, pos, _ := helperSrc(r, p, cfg)
	var in io.Reader = src
	if br, ok := src.(struct {
		*bufio.Reader
		io.Writer
	}); ok {
		in = br.Reader // NextReader takes an io.Reader: the *bufio.Reader itself
	}
	for {
		o.Calls++
		h, rd, err := wsutil.NextReader(in, cfg.State())
		if err != nil {
			o.Err, o.ErrAt = err, "NextReader"
			return
		}
		rec := &Rec{Kind: 'M', Op: byte(h.OpCode), Hdr: h, HasHdr: true, HdrAt: pos()}
		if h.OpCode.IsControl() {
			rec.Kind = 'C'
		}
		if !readUnit(r, p, rd, nil, rec, o, false) {
			return
		}
		rec.EndAt = pos()
		o.Recs = append(o.Recs, *rec)
	}
}

func appReadMessage(r *eng.Run, pp *Pipe, cfg ReadCfg, o *Outcome) {
	src, pos, _ := helperSrc(r, pp, cfg)
	var p io.Reader = src
	if br, ok := src.(struct {
		*bufio.Reader
		io.Writer
	}); ok {
		p = br.Reader
	}
	var msgs []wsutil.Message
	sentinel := wsutil.Message{OpCode: ws.OpBinary, Payload: []byte("sentinel")}
	for {
		o.Calls++
		if cfg.SeedMsgs {
			msgs = append(msgs[:0], sentinel)
		} else {
			msgs = msgs[:0]
		}
		before := len(msgs)
		var err error
		switch {
		case cfg.Variant == 1 && cfg.Side == ref.Server:
			msgs, err = wsutil.ReadClientMessage(p, msgs)
		case cfg.Variant == 1 && cfg.Side == ref.Client:
			msgs, err = wsutil.ReadServerMessage(p, msgs)
		default:
			msgs, err = wsutil.ReadMessage(p, cfg.State(), msgs)
		}
		if len(msgs) < before || (before == 1 && (msgs[0].OpCode != sentinel.OpCode || !bytes.Equal(msgs[0].Payload, sentinel.Payload))) {
			r.Failf("append_contract", "ReadMessage did not preserve the messages passed in")
		}
		for _, m := range msgs[before:] {
			rec := Rec{Kind: 'M', Op: byte(m.OpCode), Data: append([]byte(nil), m.Payload...), HdrAt: -1, EndAt: -1}
			if m.OpCode.IsControl() {
				rec.Kind = 'C'
			}
			rec.Failed = err != nil
			o.Recs = append(o.Recs, rec)
		}
		if err != nil {
			o.Err, o.ErrAt = err, "ReadMessage"
			return
		}
		if len(o.Recs) > 0 {
			o.Recs[len(o.Recs)-1].EndAt = pos()
		}
	}
}

func appReadData(r *eng.Run, pp *Pipe, cfg ReadCfg, o *Outcome) {
	p, pos, flush := helperSrc(r, pp, cfg)
	for {
		o.Calls++
		flush()
		var (
			data []byte
			op   ws.OpCode
			err  error
		)
		srv := cfg.Side == ref.Server
		switch cfg.Variant {
		case 0:
			data, op, err = wsutil.ReadData(p, cfg.State())
		case 1:
			if srv {
				data, op, err = wsutil.ReadClientData(p)
			} else {
				data, op, err = wsutil.ReadServerData(p)
			}
		case 2:
			op = ws.OpText
			if srv {
				data, err = wsutil.ReadClientText(p)
			} else {
				data, err = wsutil.ReadServerText(p)
			}
		case 3:
			op = ws.OpBinary
			if srv {
				data, err = wsutil.ReadClientBinary(p)
			} else {
				data, err = wsutil.ReadServerBinary(p)
			}
		}
		if err != nil {
			if len(data) > 0 {
				// A failed call that still hands out bytes: keep them visible.
				o.Open = &Rec{Kind: 'M', Op: byte(op), Data: append([]byte(nil), data...)}
			}
			flush()
			o.Err, o.ErrAt = err, "ReadData"
			return
		}
		o.Recs = append(o.Recs, Rec{Kind: 'M', Op: byte(op), Data: append([]byte(nil), data...), HdrAt: -1, EndAt: pos()})
	}
}

func appReadFrame(r *eng.Run, p *Pipe, cfg ReadCfg, o *Outcome) {
	var src io.Reader = p
	pos := p.Consumed
	if cfg.Bufio > 0 {
		br := bufio.NewReaderSize(p, cfg.Bufio)
		src = br
		pos = func() int { return p.Consumed() - br.Buffered() }
		r.Probe("read_frame_source_is_bufio_reader")
	}
	for {
		o.Calls++
		f, err := ws.ReadFrame(src)
		if err != nil {
			o.Err, o.ErrAt = err, "ReadFrame"
			return
		}
		if int64(len(f.Payload)) != f.Header.Length {
			r.Failf("wrong_payload", "ReadFrame returned a header announcing %d bytes with a %d byte payload and no error", f.Header.Length, len(f.Payload))
		}
		o.Recs = append(o.Recs, Rec{Kind: 'F', Op: byte(f.Header.OpCode), Data: append([]byte(nil), f.Payload...),
			Hdr: f.Header, HasHdr: true, HdrAt: -1, EndAt: pos()})
	}
}

// ---------------------------------------------------------------------------
// Models

// Exp is one expected record with the wire offsets that bound it.
type Exp struct {
	Kind    byte
	Op      byte
	Data    []byte
	First   *ref.Frame // frame whose header the application is handed (nil if none)
	EndOff  int        // wire offset at which the unit is complete
	CallEnd int        // wire offset at which the API call that hands it over returns
}

func wanted(cfg ReadCfg, op byte) bool {
	switch cfg.Variant {
	case 2:
		return op == ref.OpText
	case 3:
		return op == ref.OpBinary
	}
	return op == ref.OpText || op == ref.OpBinary
}

// Model derives what the application of cfg must be handed for stream s.
func Model(s *Stream, cfg ReadCfg) []Exp {
	var out []Exp
	for _, it := range s.Items {
		if it.Ctrl != nil {
			switch cfg.App {
			case AppReader, AppNextReader, AppReadMessage:
				out = append(out, Exp{Kind: 'C', Op: it.Ctrl.Op, Data: it.Ctrl.Payload, First: it.Ctrl, EndOff: it.Ctrl.End})
			case AppReadFrame:
				out = append(out, frameExp(it.Ctrl))
			}
			continue
		}
		m := it.Msg
		switch cfg.App {
		case AppReader:
			if cfg.OnInter > 0 {
				for _, c := range m.Inter {
					out = append(out, Exp{Kind: 'I', Op: c.Op, Data: c.Payload, First: c, EndOff: c.End})
				}
			}
			out = append(out, Exp{Kind: 'M', Op: m.Op, Data: m.Payload, First: m.First, EndOff: m.Last.End})
		case AppNextReader:
			out = append(out, Exp{Kind: 'M', Op: m.Op, Data: m.Payload, First: m.First, EndOff: m.Last.End})
		case AppReadMessage:
			for _, c := range m.Inter {
				out = append(out, Exp{Kind: 'C', Op: c.Op, Data: c.Payload, First: nil, EndOff: c.End, CallEnd: m.Last.End})
			}
			out = append(out, Exp{Kind: 'M', Op: m.Op, Data: m.Payload, EndOff: m.Last.End})
		case AppReadData:
			if wanted(cfg, m.Op) {
				out = append(out, Exp{Kind: 'M', Op: m.Op, Data: m.Payload, EndOff: m.Last.End})
			}
		case AppReadFrame:
			// Frames in wire order: data frames and intermediates interleaved.
			for _, f := range s.Frames {
				if f.Off >= m.First.Off && f.End <= m.Last.End {
					out = append(out, frameExp(f))
				}
			}
		}
	}
	return out
}

func frameExp(f *ref.Frame) Exp {
	raw := make([]byte, len(f.Payload))
	if f.Masked {
		ref.XOR(raw, f.Payload, f.Mask, 0)
	} else {
		copy(raw, f.Payload)
	}
	return Exp{Kind: 'F', Op: f.Op, Data: raw, First: f, EndOff: f.End}
}

// Before returns the expected records that are complete (and whose API call
// has returned) at wire offset cutoff. Records are in wire order, so this is a
// prefix.
func Before(exp []Exp, cutoff int) []Exp {
	n := 0
	for _, e := range exp {
		end := e.EndOff
		if e.CallEnd > end {
			end = e.CallEnd
		}
		if end > cutoff {
			break
		}
		n++
	}
	return exp[:n]
}

// Delivered returns the records handed over by API calls that succeeded.
func (o *Outcome) Delivered() []Rec {
	n := len(o.Recs)
	for n > 0 && o.Recs[n-1].Failed {
		n--
	}
	return o.Recs[:n]
}

// hdrOf converts a reference frame to the header the library should report.
func hdrOf(f *ref.Frame) ws.Header {
	return ws.Header{Fin: f.Fin, Rsv: f.Rsv, OpCode: ws.OpCode(f.Op), Masked: f.Masked, Mask: f.Mask, Length: int64(len(f.Payload))}
}

// CheckRecs compares what was delivered with the first len(exp) expected
// records. rule prefixes identify the clause; want is the expected list the
// application must have been handed in full.
func CheckRecs(r *eng.Run, cfg ReadCfg, o *Outcome, want []Exp) {
	recs := o.Delivered()
	if len(recs) < len(want) {
		e := want[len(recs)]
		r.Failf("missing_delivery", "%s: delivered %d units, expected %d; first missing: kind=%c op=%d len=%d (terminal error %v at %s)",
			cfg.Name(), len(recs), len(want), e.Kind, e.Op, len(e.Data), o.Err, o.ErrAt)
	}
	for i, e := range want {
		g := recs[i]
		kind := g.Kind
		if cfg.App == AppReadMessage && e.Kind == 'C' {
			kind = 'C'
		}
		if kind != e.Kind || g.Op != e.Op {
			r.Failf("wrong_unit", "%s: unit %d is kind=%c op=%d, expected kind=%c op=%d", cfg.Name(), i, g.Kind, g.Op, e.Kind, e.Op)
		}
		switch {
		case g.NoData:
		case g.Partial:
			if len(g.Data) > len(e.Data) || !bytes.Equal(g.Data, e.Data[:len(g.Data)]) {
				r.Failf("wrong_payload", "%s: unit %d (op=%d): partially read %d bytes are not a prefix of the %d byte payload%s",
					cfg.Name(), i, e.Op, len(g.Data), len(e.Data), firstDiff(g.Data, e.Data))
			}
		default:
			if !bytes.Equal(g.Data, e.Data) {
				r.Failf("wrong_payload", "%s: unit %d (kind=%c op=%d): got %d bytes, expected %d%s",
					cfg.Name(), i, e.Kind, e.Op, len(g.Data), len(e.Data), firstDiff(g.Data, e.Data))
			}
		}
		if g.HasHdr && e.First != nil {
			if h := hdrOf(e.First); g.Hdr != h {
				r.Failf("wrong_header", "%s: unit %d: header %+v, expected %+v", cfg.Name(), i, g.Hdr, h)
			}
			// Exact consumption is implied for the helpers that build a new
			// Reader per call (read-ahead would be lost); a long-lived Reader
			// is only held to delivering the right units.
			if cfg.App != AppReader && g.HdrAt >= 0 && g.HdrAt != e.First.HdrEnd {
				r.Failf("overread_header", "%s: unit %d: %d transport bytes consumed when the header was handed over, header ends at %d",
					cfg.Name(), i, g.HdrAt, e.First.HdrEnd)
			}
		}
		if cfg.App != AppReader && g.EndAt >= 0 && g.EndAt != e.EndOff && e.Kind != 'I' {
			r.Failf("overread_unit", "%s: unit %d (kind=%c): %d transport bytes consumed at its end, it ends at %d",
				cfg.Name(), i, e.Kind, g.EndAt, e.EndOff)
		}
	}
}

func firstDiff(a, b []byte) string {
	n := minInt(len(a), len(b))
	for i := 0; i < n; i++ {
		if a[i] != b[i] {
			return " (first difference at byte " + itoa(i) + ": got 0x" + hex(a[i]) + " want 0x" + hex(b[i]) + ")"
		}
	}
	return ""
}

func hex(b byte) string {
	const d = "0123456789abcdef"
	return string([]byte{d[b>>4], d[b&15]})
}

// CheckConts checks OnContinuation observations against the continuation
// frames of the stream wholly announced before cutoff.
func CheckConts(r *eng.Run, cfg ReadCfg, o *Outcome, s *Stream, cutoff int) {
	var want []*ref.Frame
	for _, f := range s.Frames {
		if f.Op == ref.OpCont && f.HdrEnd <= cutoff {
			want = append(want, f)
		}
	}
	// Discarded messages still walk their continuations, so the count matches
	// unless the run ended early; compare the common prefix and require no
	// extra callbacks.
	if len(o.Conts) > len(want) {
		r.Failf("extra_continuation_callback", "%s: OnContinuation called %d times, stream has %d continuation frames before offset %d",
			cfg.Name(), len(o.Conts), len(want), cutoff)
	}
	for i, c := range o.Conts {
		if h := hdrOf(want[i]); c.Hdr != h {
			r.Failf("wrong_continuation_header", "%s: continuation %d: header %+v, expected %+v", cfg.Name(), i, c.Hdr, h)
		}
		if false && c.At != want[i].HdrEnd {
			r.Failf("overread_header", "%s: continuation %d: %d bytes consumed at callback, header ends at %d", cfg.Name(), i, c.At, want[i].HdrEnd)
		}
	}
}

// ExpectedReplies returns the pongs ReadData must have written for the pings
// of s whose frames end at or before cutoff.
func ExpectedReplies(s *Stream, cutoff int) [][]byte {
	var out [][]byte
	for _, f := range s.Frames {
		if f.Op == ref.OpPing && f.End <= cutoff {
			out = append(out, f.Payload)
		}
	}
	return out
}

// CheckPongs decodes what the endpoint wrote and compares it with the
// expected pongs (C08 oracle in its simplest form; used by C04/C16 for
// ReadData).
func CheckPongs(r *eng.Run, cfg ReadCfg, p *Pipe, want [][]byte) {
	fs, rest, err := ref.DecodeAll(p.Out)
	if err != nil || rest != 0 {
		r.FailProp("C08", "reply_not_whole_frames", "%s: bytes written do not form whole frames (rest=%d err=%v)", cfg.Name(), rest, err)
	}
	if len(fs) != len(want) {
		r.FailProp("C08", "reply_count", "%s: %d reply frames written, expected %d pongs", cfg.Name(), len(fs), len(want))
	}
	for i, f := range fs {
		if f.Op != ref.OpPong || !f.Fin || f.Rsv != 0 || !bytes.Equal(f.Payload, want[i]) {
			r.FailProp("C08", "wrong_pong", "%s: reply %d is %s, expected pong with the ping's %d byte payload", cfg.Name(), i, frameStr(f), len(want[i]))
		}
		if f.Masked != (cfg.Side == ref.Client) {
			r.FailProp("C08", "reply_mask", "%s: reply %d masked=%v on side %v", cfg.Name(), i, f.Masked, cfg.Side)
		}
	}
}
