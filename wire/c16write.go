package wire

import (
	"bytes"
	"github.com/gobwas/ws"
	"math/rand"

	"github.com/gobwas/ws/wsutil"

	"verif/eng"
	"verif/sim"
)

// C16Write: after a write to the destination fails, the fragmenting writer
// reports the error on every later write and flush and sends no further bytes
// (write side of C16). Workloads are sampled; per workload every destination
// write-call index x {0 bytes, 1 byte, all but one byte} is executed.
func C16Write(r *eng.Run) {
	cfg := drawWCfg(r)
	r.SetEntry("Writer/" + ctorNames[cfg.Ctor])
	ops := drawHistory(r, cfg, 10)
	seed := r.T.U32(sim.LPaySeed)
	rseed := int64(r.T.U32(sim.LMisc))
	r.Note("C16 write %s history: %v", cfg, ops)

	// How the destination fails: for good or only once, with a plain error
	// or with a net.Error that calls itself a timeout and temporary.
	failOnce, netErr := r.T.Bool(sim.LFault), r.T.Chance(sim.LFault, 1, 3)
	shortErr := !netErr && r.T.Chance(sim.LFault, 1, 3) // the failing call reports io.ErrShortWrite
	// After the failure the application may start over with ResetOp (which is
	// not Reset: same destination, same writer, the error stays).
	resetOp := r.T.Chance(sim.LHist, 1, 4)
	// The writer may have had an earlier life on another connection in which
	// an extension refused a frame; Reset made it as new (C18) for this one.
	prior := resetOp && r.T.Bool(sim.LHist)
	if prior {
		r.Probe("writer_had_an_earlier_life_with_a_refusing_extension")
	}
	exec := func(failAt, failN int) *WRun {
		rand.Seed(rseed)
		p := NewPipe(r, nil)
		p.WFailAt, p.WFailN = failAt, failN
		p.FailOnce, p.NetErr, p.ShortErr = failOnce, netErr, shortErr
		wr := &WRun{Cfg: cfg, Ops: ops, Pipe: p}
		wr.W = NewW(cfg, p)
		if prior {
			wr.W.Reset(NewPipe(r, nil), cfg.State(), ws.OpCode(cfg.Op))
			wr.W.SetExtensions(&failingExt{failAt: 0})
			wr.W.Write([]byte("earlier"))
			wr.W.Flush()
			wr.W.Reset(p, cfg.State(), ws.OpCode(cfg.Op))
		}
		wr.MS = applyOptions(wr.W, cfg)
		fired := -1
		ExecHistory(r, wr, seed, func(i int) {
			ob := wr.Obs[i]
			if fired >= 0 {
				switch ob.Op.Kind {
				case WOpWrite, WOpWriteEmpty, WOpThrough, WOpFlush, WOpFlushFrag:
					if ob.Err == nil {
						r.Failf("error_not_sticky", "destination write call %d failed during step %d (%s); later step %d %s returned nil",
							failAt, fired, ops[fired], i, ob.Op)
					}
				}
			}
			if fired < 0 && p.WriteFailed() {
				fired = i
				if resetOp {
					wr.W.ResetOp(ws.OpCode(cfg.Op))
					r.Probe("reset_op_after_failed_write")
				}
			}
		})
		if cfg.Ctor == 4 {
			wsutil.PutWriter(wr.W)
		}
		return wr
	}

	base := exec(-1, 0)
	W := append([]byte(nil), base.Pipe.Out...)
	calls := append([]int(nil), base.Pipe.WCalls...)
	r.Res.Nontrivial = len(calls) > 0
	for j := range calls {
		start := 0
		if j > 0 {
			start = calls[j-1]
		}
		clen := calls[j] - start
		ms := []int{0}
		if clen > 1 {
			ms = append(ms, 1)
		}
		if clen > 2 {
			ms = append(ms, clen-1)
		}
		if start == 0 || clen <= 14 {
			r.Probe("write_fail_in_header_or_small_write")
		} else {
			r.Probe("write_fail_in_payload")
		}
		for _, m := range ms {
			r.Res.FaultPoints++
			wr := exec(j, m)
			p := wr.Pipe
			if !p.WriteFailed() {
				r.Internalf("write failure %d did not fire on replayed history (history is not deterministic)", j)
			}
			if p.AfterErr != 0 {
				r.Failf("bytes_after_failure", "destination write call %d failed after %d bytes; the writer offered %d more bytes afterwards", j, m, p.AfterErr)
			}
			if len(p.Out) > len(W) || !bytes.Equal(p.Out, W[:len(p.Out)]) {
				r.Failf("stream_with_hole", "destination write call %d failed after %d bytes; the %d bytes received are not a prefix of the fault-free stream%s", j, m, len(p.Out), firstDiff(p.Out, W))
			}
			if len(p.Out) != start+m {
				r.Failf("stream_with_hole", "destination write call %d failed after %d bytes; %d bytes received, expected %d", j, m, len(p.Out), start+m)
			}
		}
	}
}

// c16ControlWriter: the control writer sits on the fragmenting writer; once
// the destination has failed it goes on refusing like the writer below it
// (a long-lived ControlWriter an application keeps for its pings).
func c16ControlWriter(r *eng.Run) {
	client := r.T.Bool(sim.LSide)
	st := ws.StateServerSide
	if client {
		st = ws.StateClientSide
	}
	r.SetEntry("ControlWriter")
	n := 2 + r.T.Int(sim.LHist, 6)
	type step struct {
		flush bool
		k     int
	}
	var steps []step
	for i := 0; i < n; i++ {
		if r.T.Chance(sim.LHist, 1, 3) {
			steps = append(steps, step{flush: true})
		} else {
			steps = append(steps, step{k: []int{0, 1, 10, 60, 100, 125}[r.T.Int(sim.LLen, 6)]})
		}
	}
	steps = append(steps, step{flush: true}, step{k: 5}, step{flush: true})
	buffered := r.T.Bool(sim.LCfg)
	seed := r.T.U32(sim.LPaySeed)
	rseed := int64(r.T.U32(sim.LMisc))
	exec := func(failAt, failN int) (*Pipe, int) {
		rand.Seed(rseed)
		p := NewPipe(r, nil)
		p.WFailAt, p.WFailN = failAt, failN
		var cw *wsutil.ControlWriter
		if buffered {
			cw = wsutil.NewControlWriterBuffer(p, st, ws.OpPing, make([]byte, 140))
		} else {
			cw = wsutil.NewControlWriter(p, st, ws.OpPing)
		}
		fired, pending := -1, 0
		for i, sp := range steps {
			var err error
			if sp.flush {
				err = cw.Flush()
				pending = 0
			} else {
				if pending+sp.k > 125 {
					continue // would be refused for its size: not what is looked at here
				}
				_, err = cw.Write(patBytes(seed, i, sp.k))
				pending += sp.k
			}
			if fired >= 0 && err == nil && (sp.flush || sp.k > 0) {
				r.Failf("error_not_sticky", "ControlWriter: destination write call %d failed during step %d; later step %d (flush=%v, %d bytes) returned nil", failAt, fired, i, sp.flush, sp.k)
			}
			if fired < 0 && p.WriteFailed() {
				fired = i
			}
		}
		return p, fired
	}
	base, _ := exec(-1, 0)
	W := append([]byte(nil), base.Out...)
	calls := append([]int(nil), base.WCalls...)
	r.Note("C16 ControlWriter client=%v buffered=%v steps=%v: %d destination writes", client, buffered, steps, len(calls))
	r.Res.Nontrivial = len(calls) > 0
	for j := range calls {
		start := 0
		if j > 0 {
			start = calls[j-1]
		}
		for _, m := range []int{0, 1} {
			if m >= calls[j]-start {
				continue
			}
			r.Res.FaultPoints++
			p, _ := exec(j, m)
			if !p.WriteFailed() {
				r.Internalf("write failure %d did not fire on replayed history", j)
			}
			r.Fault("write_fail")
			if p.AfterErr != 0 {
				r.Failf("bytes_after_failure", "ControlWriter: destination write call %d failed after %d bytes; %d more bytes were offered afterwards", j, m, p.AfterErr)
			}
			if len(p.Out) > len(W) || !bytes.Equal(p.Out, W[:len(p.Out)]) {
				r.Failf("stream_with_hole", "ControlWriter: destination write call %d failed after %d bytes; what was received is not a prefix of the fault-free stream", j, m)
			}
		}
	}
}

// C16 dispatches between the sub-workloads of the property.
func C16(r *eng.Run) {
	switch r.T.Int(sim.LEntry, 10) {
	case 0, 1, 2:
		if r.T.Chance(sim.LEntry, 1, 8) {
			c16ControlWriter(r)
			return
		}
		C16Write(r)
	case 3, 4:
		C16Handshake(r)
	case 5:
		C16Control(r)
	case 9:
		C16Flate(r)
	default:
		C16Read(r)
	}
}
