package wire

import (
	"bytes"
	"errors"
	"fmt"
	"io"
	"strings"

	"github.com/gobwas/ws"
	"github.com/gobwas/ws/wsutil"

	"verif/eng"
	"verif/ref"
	"verif/sim"
)

// Expected reply kinds.
const (
	replyNone = iota
	replyPong
	replyCloseEcho
	replyCloseEmpty
	replyCloseProto       // 1002
	replyCloseProtoOrUTF8 // 1002 or 1007
)

type ctrlExp struct {
	reply   int
	payload []byte // pong payload
	code    int
	reason  string
	// expected return class
	retNil    bool
	retClosed bool
	retProto  bool
}

func expectCtrl(op byte, payload []byte) ctrlExp {
	switch op {
	case ref.OpPing:
		return ctrlExp{reply: replyPong, payload: payload, retNil: true}
	case ref.OpPong:
		return ctrlExp{reply: replyNone, retNil: true}
	}
	// close
	if len(payload) == 0 {
		return ctrlExp{reply: replyCloseEmpty, code: 1005, retClosed: true}
	}
	if len(payload) == 1 {
		return ctrlExp{reply: replyCloseProto, retProto: true}
	}
	code := int(payload[0])<<8 | int(payload[1])
	cls := ref.CloseCodeClass(code)
	okReason := validUTF8(payload[2:])
	switch {
	case cls == ref.CodeInvalid:
		return ctrlExp{reply: replyCloseProto, retProto: true}
	case !okReason:
		return ctrlExp{reply: replyCloseProtoOrUTF8, retProto: true}
	}
	return ctrlExp{reply: replyCloseEcho, code: code, reason: string(payload[2:]), retClosed: true}
}

func validUTF8(p []byte) bool {
	ok, _ := ref.CloseBodyOK(append([]byte{0x03, 0xe8}, p...))
	return ok
}

var validCodes = []int{1000, 1001, 1002, 1003, 1007, 1008, 1009, 1010, 1011, 3000, 3001, 3999, 4000, 4999}
var invalidCodes = []int{0, 1, 999, 1004, 1005, 1006, 1015, 1016, 1100, 2000, 2999}

func drawClosePayload(r *eng.Run) []byte {
	switch r.T.Int(sim.LCode, 7) {
	case 0:
		return nil
	case 1:
		return []byte{byte(r.T.Int(sim.LCode, 256))}
	case 2, 3:
		code := validCodes[r.T.Int(sim.LCode, len(validCodes))]
		n := []int{0, 1, 5, 60, 122, 123}[r.T.Int(sim.LLen, 6)]
		reason := make([]byte, n)
		FillUTF8(reason, r.T.U32(sim.LPaySeed))
		return append([]byte{byte(code >> 8), byte(code)}, reason...)
	case 4:
		code := validCodes[r.T.Int(sim.LCode, len(validCodes))]
		bad := [][]byte{{0xff}, {0xc0, 0x80}, {'o', 'k', 0xe2, 0x82}, {0xed, 0xa0, 0x80}, {0xf4, 0x90, 0x80, 0x80}}[r.T.Int(sim.LUTF8, 5)]
		// Sometimes behind a long valid prefix (payloads around the pool's
		// smallest class).
		pre := make([]byte, []int{0, 0, 55, 60, 100, 119}[r.T.Int(sim.LLen, 6)])
		for i := range pre {
			pre[i] = 'r'
		}
		return append(append([]byte{byte(code >> 8), byte(code)}, pre...), bad...)
	case 5:
		code := invalidCodes[r.T.Int(sim.LCode, len(invalidCodes))]
		reason := make([]byte, []int{1, 1, 57, 61, 100, 123}[r.T.Int(sim.LLen, 6)])
		for i := range reason {
			reason[i] = 'x'
		}
		return append([]byte{byte(code >> 8), byte(code)}, reason...)
	default:
		// Any invalid code below 5000 outside the open range.
		var code int
		for {
			code = r.T.Int(sim.LCode, 5000)
			if ref.CloseCodeClass(code) == ref.CodeInvalid {
				break
			}
			if code == 0 {
				break
			}
		}
		n := []int{r.T.Int(sim.LLen, 20), 59, 63, 110, 123}[r.T.Int(sim.LLen, 5)]
		reason := make([]byte, n)
		FillUTF8(reason, 7)
		return append([]byte{byte(code >> 8), byte(code)}, reason...)
	}
}

func drawCtrlFrame(r *eng.Run, recv ref.Side, allowClose bool) *ref.Frame {
	budget := 1 << 20
	var f *ref.Frame
	if allowClose && r.T.Chance(sim.LCtrl, 2, 5) {
		f = &ref.Frame{Fin: true, Op: ref.OpClose, Payload: drawClosePayload(r)}
		if recv == ref.Server {
			f.Masked, f.Mask = true, drawMask(r)
		}
		return f
	}
	return drawCtrl(r, StreamCfg{Recv: recv}, &budget)
}

// checkReplies decodes what the handler wrote and compares it with exps.
func checkReplies(r *eng.Run, what string, side ref.Side, out []byte, exps []ctrlExp) {
	fs, rest, err := ref.DecodeAll(out)
	if err != nil || rest != 0 {
		r.Failf("reply_not_whole_frames", "%s: bytes written do not form whole frames (rest=%d err=%v, %d bytes: %x)", what, rest, err, len(out), head(out, 24))
	}
	var want []ctrlExp
	for _, e := range exps {
		if e.reply != replyNone {
			want = append(want, e)
		}
	}
	// The receiver of the reply is the other side.
	peer := ws.StateClientSide
	if side == ref.Client {
		peer = ws.StateServerSide
	}
	for i, f := range fs {
		if !f.Fin || f.Rsv != 0 || len(f.Payload) > 125 || !ref.IsControl(f.Op) {
			r.Failf("reply_malformed", "%s: reply %d is %s: not a single final control frame of at most 125 bytes", what, i, frameStr(f))
		}
		if f.Masked != (side == ref.Client) {
			r.Failf("reply_mask", "%s: reply %d (%s) masked=%v but it is sent by side=%d (clients must mask, servers must not)", what, i, frameStr(f), f.Masked, side)
		}
		if e := ws.CheckHeader(hdrOf(f), peer); e != nil {
			r.Failf("reply_rejected_by_peer", "%s: reply %d (%s) is refused by the peer's ws.CheckHeader: %v", what, i, frameStr(f), e)
		}
		if f.Op == ref.OpClose {
			if ok, _ := ref.CloseBodyOK(f.Payload); !ok {
				r.Failf("reply_close_body_invalid", "%s: reply %d close payload %x is not acceptable to the close-payload rules", what, i, head(f.Payload, 32))
			}
		}
	}
	if len(fs) != len(want) {
		r.Failf("reply_count", "%s: %d reply frame(s) written, expected %d", what, len(fs), len(want))
	}
	for i, e := range want {
		f := fs[i]
		switch e.reply {
		case replyPong:
			if f.Op != ref.OpPong || !bytes.Equal(f.Payload, e.payload) {
				r.Failf("wrong_pong", "%s: reply %d is %s, expected a pong with the ping's %d byte payload%s", what, i, frameStr(f), len(e.payload), firstDiff(f.Payload, e.payload))
			}
		case replyCloseEmpty:
			if f.Op != ref.OpClose || len(f.Payload) != 0 {
				r.Failf("wrong_close_reply", "%s: reply %d is %s, expected an empty close", what, i, frameStr(f))
			}
		case replyCloseEcho, replyCloseProto, replyCloseProtoOrUTF8:
			if f.Op != ref.OpClose || len(f.Payload) < 2 {
				r.Failf("wrong_close_reply", "%s: reply %d is %s, expected a close with a status code", what, i, frameStr(f))
			}
			code := int(f.Payload[0])<<8 | int(f.Payload[1])
			ok := false
			switch e.reply {
			case replyCloseEcho:
				ok = code == e.code
			case replyCloseProto:
				ok = code == 1002
			default:
				ok = code == 1002 || code == 1007
			}
			if !ok {
				r.Failf("wrong_close_code", "%s: reply %d carries status %d (expectation kind %d, received code %d)", what, i, code, e.reply, e.code)
			}
		}
	}
}

func head(b []byte, n int) []byte {
	if len(b) > n {
		return b[:n]
	}
	return b
}

func checkCtrlReturn(r *eng.Run, what string, e ctrlExp, err error) {
	switch {
	case e.retNil:
		if err != nil {
			r.Failf("wrong_return", "%s: returned %v, expected nil", what, err)
		}
	case e.retClosed:
		var ce wsutil.ClosedError
		ok := errors.As(err, &ce)
		if !ok {
			r.Failf("wrong_return", "%s: returned %T %v, expected wsutil.ClosedError{%d}", what, err, err, e.code)
		}
		if int(ce.Code) != e.code || ce.Reason != e.reason {
			r.Failf("wrong_return", "%s: returned ClosedError{%d,%q}, expected {%d,%q}", what, ce.Code, ce.Reason, e.code, e.reason)
		}
	case e.retProto:
		var pe ws.ProtocolError
		if !errors.As(err, &pe) {
			r.Failf("wrong_return", "%s: returned %T %v, expected a ws.ProtocolError", what, err, err)
		}
	}
}

func sideState(s ref.Side) ws.State {
	if s == ref.Client {
		return ws.StateClientSide
	}
	return ws.StateServerSide
}

// C08: automatic control-frame replies.
// c08State is the state value the application passes for side: the side bit,
// sometimes with the further bits it keeps in the same value.
func c08State(r *eng.Run, side ref.Side) ws.State {
	extra := []ws.State{0, 0, ws.StateExtended, ws.StateFragmented}[r.T.Int(sim.LCfg, 4)]
	if extra != 0 {
		r.Probe("handler_state_with_further_bits")
	}
	return sideState(side) | extra
}

func C08(r *eng.Run) {
	switch r.T.Int(sim.LEntry, 6) {
	case 0:
		c08ControlWriter(r)
	case 1:
		c08Direct(r)
	case 2:
		c08FrameHandler(r)
	default:
		c08Stream(r)
	}
}

// c08Direct: ControlHandler.Handle on a source positioned at the payload.
func c08Direct(r *eng.Run) {
	side := ref.Side(r.T.Int(sim.LSide, 2))
	f := drawCtrlFrame(r, side, true)
	disable := r.T.Bool(sim.LCfg)
	r.SetEntry("ControlHandler.Handle")
	wire := ref.AppendFrame(nil, f)
	var srcBytes []byte
	if disable {
		srcBytes = append([]byte(nil), f.Payload...)
	} else {
		srcBytes = append([]byte(nil), wire[f.HdrEnd:f.End]...)
	}
	trailer := []byte{0xde, 0xad, 0xbe, 0xef, 0xde, 0xad}
	src := NewPipe(r, append(srcBytes, trailer...))
	src.SegMode = DrawSeg(r)
	if src.SegMode == SegBoundary {
		src.SegMode = SegTiny
	}
	dst := NewPipe(r, nil)
	h := ControlHandlerFor(side, src, dst, disable)
	// Or the frames are in memory already (a received datagram, a test
	// fixture): the source is a standard in-memory reader with more behind
	// the payload.
	var mem interface {
		io.Reader
		Len() int
	}
	memTotal := len(srcBytes) + len(trailer)
	switch r.T.Int(sim.LCfg, 6) {
	case 0:
		mem = bytes.NewReader(src.In)
	case 1:
		mem = bytes.NewBuffer(append([]byte(nil), src.In...))
	case 2:
		mem = strings.NewReader(string(src.In))
	}
	if mem != nil {
		h.Src = mem
		r.Probe("handler_source_is_a_std_in_memory_reader")
	}
	h.State = c08State(r, side)
	dstFails := r.T.Chance(sim.LFault, 1, 10)
	if dstFails {
		dst.WFailAt, dst.WFailN = 0, 0
	}
	r.Note("C08 ControlHandler.Handle side=%d disableSrcCiphering=%v frame=%s payload=%x seg=%d", side, disable, frameStr(f), head(f.Payload, 16), src.SegMode)
	r.Res.Nontrivial = true
	var err error
	hdr := hdrOf(f)
	if disable && hdr.Masked && r.T.Bool(sim.LCfg) {
		// The frame was pulled with ws.ReadFrame and unmasked with
		// ws.UnmaskFrameInPlace, which clears Masked and Mask in the header.
		hdr.Masked, hdr.Mask = false, [4]byte{}
		r.Probe("header_of_a_frame_unmasked_in_place")
	}
	if r.T.Bool(sim.LEntry) {
		err = h.Handle(hdr)
	} else {
		// The exported per-opcode handlers, called directly.
		switch f.Op {
		case ref.OpPing:
			err = h.HandlePing(hdr)
		case ref.OpPong:
			err = h.HandlePong(hdr)
		default:
			err = h.HandleClose(hdr)
		}
		r.Probe("per_opcode_handler_called_directly")
	}
	e := expectCtrl(f.Op, f.Payload)
	what := fmt.Sprintf("Handle(%s) side=%d", frameStr(f), side)
	if dstFails {
		// The reply could not be written: whatever else is reported, a close
		// frame that breaks the rules is still reported as the protocol
		// error it is (what the peer sent is the caller's to know).
		r.Fault("write_fail")
		if e.retProto {
			checkCtrlReturn(r, what+" with a failing reply destination", e, err)
			r.Probe("invalid_close_with_failing_reply_destination")
		} else if e.reply > 0 && err == nil {
			r.FailProp("C16", "failed_write_reported_as_success", "%s: the reply could not be written (destination failed) and the handler returned nil", what)
		}
		return
	}
	checkReplies(r, what, side, dst.Out, []ctrlExp{e})
	checkCtrlReturn(r, what, e, err)
	// Zero-length ping/pong/close need not touch the source; otherwise exactly
	// Length bytes belong to the frame.
	if mem != nil {
		consumed := memTotal - mem.Len()
		if consumed > len(f.Payload) {
			r.Failf("handler_overread", "%s: handler consumed %d bytes from the %T source, the payload has %d", what, consumed, mem, len(f.Payload))
		}
		if f.Op != ref.OpPong && len(f.Payload) > 0 && consumed != len(f.Payload) {
			r.Failf("handler_underread", "%s: handler consumed %d of %d payload bytes from the %T source", what, consumed, len(f.Payload), mem)
		}
		return
	}
	if src.Consumed() > len(f.Payload) {
		r.Failf("handler_overread", "%s: handler consumed %d bytes from the source, the payload has %d", what, src.Consumed(), len(f.Payload))
	}
	if f.Op != ref.OpPong && len(f.Payload) > 0 && src.Consumed() != len(f.Payload) {
		r.Failf("handler_underread", "%s: handler consumed %d of %d payload bytes", what, src.Consumed(), len(f.Payload))
	}
}

// ControlHandlerFor builds the handler under test.
func ControlHandlerFor(side ref.Side, src io.Reader, dst io.Writer, disable bool) wsutil.ControlHandler {
	return wsutil.ControlHandler{Src: src, Dst: dst, State: sideState(side), DisableSrcCiphering: disable}
}

// c08FrameHandler: wsutil.ControlFrameHandler called directly and
// HandleControlMessage (+variants) on a read message.
func c08FrameHandler(r *eng.Run) {
	side := ref.Side(r.T.Int(sim.LSide, 2))
	f := drawCtrlFrame(r, side, true)
	dst := NewPipe(r, nil)
	e := expectCtrl(f.Op, f.Payload)
	var err error
	variant := r.T.Int(sim.LCfg, 3)
	r.Res.Nontrivial = true
	switch variant {
	case 0:
		r.SetEntry("ControlFrameHandler")
		src := NewPipe(r, append([]byte(nil), f.Payload...))
		src.SegMode = SegTiny
		err = wsutil.ControlFrameHandler(dst, c08State(r, side))(hdrOf(f), src)
	case 1:
		r.SetEntry("HandleControlMessage")
		m := wsutil.Message{OpCode: ws.OpCode(f.Op), Payload: append([]byte(nil), f.Payload...)}
		err = wsutil.HandleControlMessage(dst, c08State(r, side), m)
		if !bytes.Equal(m.Payload, f.Payload) {
			r.FailProp("C17", "caller_slice_modified", "HandleControlMessage (side=%d) changed the payload of the message it was given (%s)", side, frameStr(f))
		}
	default:
		r.SetEntry("HandleControlMessage.Side")
		m := wsutil.Message{OpCode: ws.OpCode(f.Op), Payload: append([]byte(nil), f.Payload...)}
		if side == ref.Server {
			err = wsutil.HandleClientControlMessage(dst, m)
		} else {
			err = wsutil.HandleServerControlMessage(dst, m)
		}
		if !bytes.Equal(m.Payload, f.Payload) {
			r.FailProp("C17", "caller_slice_modified", "Handle%sControlMessage changed the payload of the message it was given (%s)", map[bool]string{true: "Client", false: "Server"}[side == ref.Server], frameStr(f))
		}
	}
	what := fmt.Sprintf("%s(%s) side=%d", r.Entry(), frameStr(f), side)
	r.Note("C08 %s payload=%x", what, head(f.Payload, 16))
	checkReplies(r, what, side, dst.Out, []ctrlExp{e})
	checkCtrlReturn(r, what, e, err)
}

// c08Stream: control frames inside a stream, handled through the Reader
// callbacks, ReadMessage+HandleControlMessage, or ReadData.
func c08Stream(r *eng.Run) {
	side := ref.Side(r.T.Int(sim.LSide, 2))
	mode := r.T.Int(sim.LCfg, 4) // 0 Reader+ControlFrameHandler 1 ReadMessage+HandleControlMessage 2 ReadData 3 a filtering ReadData variant that skips the data message
	r.SetEntry([]string{"Reader+ControlFrameHandler", "ReadMessage+HandleControlMessage", "ReadData", "ReadData.filtered"}[mode])
	// Stream: optional leading controls, a (maybe fragmented) message with
	// controls between fragments, trailing controls; a close ends the stream.
	var frames []*ref.Frame
	var ctrls []*ref.Frame
	closed := false
	addCtrl := func(allowClose bool) {
		if closed {
			return
		}
		c := drawCtrlFrame(r, side, allowClose)
		frames = append(frames, c)
		ctrls = append(ctrls, c)
		if c.Op == ref.OpClose {
			closed = true
		}
	}
	for r.T.Chance(sim.LCtrl, 1, 3) && len(ctrls) < 3 {
		addCtrl(true)
	}
	if !closed && r.T.Chance(sim.LCtrl, 1, 40) {
		// A peer that pings a lot before it sends its message: every single
		// ping is answered.
		for i, n := 0, 120+r.T.Int(sim.LCtrl, 150); i < n; i++ {
			c := &ref.Frame{Fin: true, Op: ref.OpPing, Payload: []byte{byte(i), byte(i >> 8)}}
			if side == ref.Server {
				c.Masked, c.Mask = true, drawMask(r)
			}
			frames = append(frames, c)
			ctrls = append(ctrls, c)
		}
		r.Probe("long_run_of_pings_before_the_message")
	}
	var msg *Msg
	if !closed {
		nfrag := 1 + r.T.Int(sim.LNFrag, 3)
		msg = &Msg{Op: ref.OpBinary}
		// Or a text message: valid UTF-8 as a whole, fragment boundaries
		// anywhere (also inside a multi-byte character), so that a control
		// frame can sit in the middle of a character.
		var text []byte
		if r.T.Bool(sim.LOp) {
			msg.Op = ref.OpText
			for len(text) < 3*nfrag+r.T.Int(sim.LLen, 30) {
				text = append(text, []string{"a", "\u00e9", "\u20ac", "\U0001F600"}[r.T.Int(sim.LUTF8, 4)]...)
			}
			r.Probe("control_frames_around_text_message")
		}
		for k := 0; k < nfrag && !closed; k++ {
			pl := patBytes(uint32(k+1), 0, r.T.Int(sim.LLen, 30))
			if msg.Op == ref.OpText {
				n := r.T.Int(sim.LLen, len(text)+1)
				if k == nfrag-1 {
					n = len(text)
				}
				pl, text = append([]byte(nil), text[:n]...), text[n:]
			}
			df := &ref.Frame{Op: ref.OpCont, Fin: k == nfrag-1, Payload: pl}
			if k == 0 {
				df.Op = msg.Op
			}
			if side == ref.Server {
				df.Masked, df.Mask = true, drawMask(r)
			}
			frames = append(frames, df)
			msg.Payload = append(msg.Payload, pl...)
			if k < nfrag-1 {
				for r.T.Chance(sim.LCtrl, 1, 2) && len(ctrls) < 6 && !closed {
					// A close between fragments ends the exchange.
					addCtrl(true)
				}
			}
		}
	}
	for !closed && r.T.Chance(sim.LCtrl, 1, 2) && len(ctrls) < 8 {
		addCtrl(true)
	}
	wire := ref.Encode(frames)
	p := NewPipe(r, wire)
	p.Marks = MarksOf(frames)
	p.SegMode = DrawSeg(r)
	p.EOFWithData = r.T.Chance(sim.LFault, 1, 4) // the last bytes arrive together with io.EOF
	p.ZeroReads = r.T.Chance(sim.LFault, 1, 8)
	if mode != 0 && r.T.Chance(sim.LHist, 1, 4) {
		// An earlier connection of the same process, read with the same
		// helper, ended inside a text message that is not valid UTF-8.
		bad := &ref.Frame{Op: ref.OpText, Fin: true, Payload: [][]byte{{0xe2, 0x82}, {'o', 'k', 0xf0, 0x9f}, {0xff}, {0xc3}}[r.T.Int(sim.LUTF8, 4)]}
		if side == ref.Server {
			bad.Masked, bad.Mask = true, drawMask(r)
		}
		q := NewPipe(r, ref.Encode([]*ref.Frame{bad}))
		var perr error
		if mode == 1 {
			_, perr = wsutil.ReadMessage(q, sideState(side), nil)
		} else {
			_, _, perr = wsutil.ReadData(q, sideState(side))
		}
		if perr == nil {
			r.FailProp("C07", "invalid_text_delivered", "%s: invalid text message %x on an earlier connection was returned as complete", r.Entry(), bad.Payload)
		}
		r.Probe("earlier_connection_ended_in_invalid_text")
	}
	r.Note("C08 %s side=%d seg=%d eofWithData=%v stream: %s", r.Entry(), side, p.SegMode, p.EOFWithData, (&Stream{Frames: frames}).Describe())
	r.Res.Nontrivial = len(ctrls) > 0

	var exps []ctrlExp
	for _, c := range ctrls {
		exps = append(exps, expectCtrl(c.Op, c.Payload))
	}
	var last ctrlExp
	if len(exps) > 0 {
		last = exps[len(exps)-1]
	}
	st := sideState(side)
	hst := c08State(r, side) // what the application passes to the handlers
	var termErr error
	switch mode {
	case 0:
		h := wsutil.ControlFrameHandler(p, hst)
		rd := &wsutil.Reader{Source: p, State: st, OnIntermediate: h}
		buf := make([]byte, 64)
	loop0:
		for {
			hdr, err := rd.NextFrame()
			if err != nil {
				termErr = err
				break
			}
			if hdr.OpCode.IsControl() {
				if err := h(hdr, rd); err != nil {
					termErr = err
					break
				}
				continue
			}
			for {
				_, err := rd.Read(buf)
				if err == io.EOF {
					break
				}
				if err != nil {
					termErr = err
					break loop0
				}
			}
		}
	case 1:
		for {
			msgs, err := wsutil.ReadMessage(p, st, nil)
			if err != nil {
				termErr = err
				break
			}
			stop := false
			for _, m := range msgs {
				if m.OpCode.IsControl() {
					if err := wsutil.HandleControlMessage(p, hst, m); err != nil {
						termErr = err
						stop = true
						break
					}
				}
			}
			if stop {
				break
			}
		}
	case 2:
		for {
			_, _, err := wsutil.ReadData(p, st)
			if err != nil {
				termErr = err
				break
			}
		}
	case 3:
		// The application waits for the other kind of message: the one on the
		// stream is skipped, the control frames around and inside it are
		// answered all the same.
		wantText := msg == nil || msg.Op != ref.OpText
		for {
			var err error
			switch {
			case side == ref.Server && wantText:
				_, err = wsutil.ReadClientText(p)
			case side == ref.Server:
				_, err = wsutil.ReadClientBinary(p)
			case wantText:
				_, err = wsutil.ReadServerText(p)
			default:
				_, err = wsutil.ReadServerBinary(p)
			}
			if err != nil {
				termErr = err
				break
			}
			r.Failf("wrong_return", "%s: a message of the unwanted kind was returned", r.Entry())
		}
	}
	what := fmt.Sprintf("%s side=%d", r.Entry(), side)
	// In mode 1 a close between fragments is only handled after the whole
	// message was read; the stream ends before that, so ReadMessage fails
	// first. Everything handled before is still checked.
	if mode == 1 && closed && midMessage(frames) {
		n := 0
		for _, f := range frames {
			if !ref.IsControl(f.Op) {
				break
			}
			n++
		}
		checkReplies(r, what, side, p.Out, exps[:n])
		return
	}
	checkReplies(r, what, side, p.Out, exps)
	if closed {
		checkCtrlReturn(r, what+" (terminal)", last, termErr)
	} else if termErr != io.EOF {
		r.Failf("wrong_return", "%s: stream without close ended with %v, expected io.EOF", what, termErr)
	}
}

// midMessage reports whether the last frame (a close) sits between fragments.
func midMessage(frames []*ref.Frame) bool {
	open := false
	for _, f := range frames[:len(frames)-1] {
		if !ref.IsControl(f.Op) {
			open = !f.Fin
		}
	}
	return open
}

// c08ControlWriter: histories of writes on the control writer.
func c08ControlWriter(r *eng.Run) {
	client := r.T.Bool(sim.LSide)
	op := []byte{ref.OpPing, ref.OpPong, ref.OpClose}[r.T.Int(sim.LOp, 3)]
	st := ws.StateServerSide
	if client {
		st = ws.StateClientSide
	}
	dst := NewPipe(r, nil)
	var cw *wsutil.ControlWriter
	bufLen := 0
	if r.T.Bool(sim.LCfg) {
		r.SetEntry("NewControlWriter")
		if r.T.Chance(sim.LSize, 1, 3) {
			// The application has tuned the package-level default buffer size
			// (put back at the start of the next run).
			wsutil.DefaultWriteBuffer = []int{16, 64, 100, 124, 126, 200, 1024, 70000}[r.T.Int(sim.LSize, 8)]
			r.Probe("default_write_buffer_tuned")
		}
		cw = wsutil.NewControlWriter(dst, st, ws.OpCode(op))
	} else {
		r.SetEntry("NewControlWriterBuffer")
		min := 3
		if client {
			min = 7
		}
		bufLen = []int{min, min + 1, 16, 64, 127, 129, 131, 133, 135, 200, 4096, 65535, 65536 + min, 65536 + min + 1, 65544, 70000, 1 << 17}[r.T.Int(sim.LSize, 17)]
		if bufLen > 65535 {
			r.Probe("control_writer_on_a_buffer_beyond_64k")
		}
		cw = wsutil.NewControlWriterBuffer(dst, st, ws.OpCode(op), make([]byte, bufLen))
	}
	n := 1 + r.T.Int(sim.LHist, 6)
	var hist []string
	var acceptedSinceFlush, acceptedTotal []byte
	seed := r.T.U32(sim.LPaySeed)
	pos := 0
	r.Res.Nontrivial = true
	for i := 0; i < n; i++ {
		if r.T.Chance(sim.LHist, 1, 4) {
			hist = append(hist, "Flush")
			if err := cw.Flush(); err != nil {
				r.Failf("unexpected_error", "ControlWriter.Flush on a healthy destination: %v (history %v)", err, hist)
			}
			acceptedSinceFlush = nil
			continue
		}
		k := []int{0, 1, 25, 60, 100, 124, 125, 126, 130, 131, 156, 160, 200, 255, 256, 257, 300, 381, 65536 + 100}[r.T.Int(sim.LLen, 19)]
		data := patBytes(seed, pos, k)
		var (
			m   int
			err error
		)
		if r.T.Chance(sim.LHist, 1, 4) {
			// The payload comes from a reader (io.Copy picks ReadFrom if the
			// writer has one, else Write): same limit, same accounting.
			hist = append(hist, fmt.Sprintf("io.Copy(%d)", k))
			var m64 int64
			m64, err = io.Copy(cw, struct{ io.Reader }{bytes.NewReader(data)})
			m = int(m64)
			r.Probe("control_writer_fed_through_io_copy")
		} else {
			hist = append(hist, fmt.Sprintf("Write(%d)", k))
			m, err = cw.Write(data)
		}
		if err == nil && m != k {
			r.Failf("short_write", "ControlWriter.Write(%d) returned %d, nil (history %v)", k, m, hist)
		}
		if err == nil && len(acceptedSinceFlush)+k > 125 {
			r.Failf("control_limit_not_enforced", "ControlWriter accepted %d bytes on top of %d already written for this frame (history %v): limit is 125", k, len(acceptedSinceFlush), hist)
		}
		if err == nil {
			acceptedSinceFlush = append(acceptedSinceFlush, data...)
			acceptedTotal = append(acceptedTotal, data...)
			pos += k
		} else {
			r.Probe("control_write_refused")
			if m != 0 {
				// Partially accepted bytes would make the model ambiguous.
				acceptedSinceFlush = append(acceptedSinceFlush, data[:m]...)
				acceptedTotal = append(acceptedTotal, data[:m]...)
				pos += m
			}
		}
		if len(acceptedSinceFlush) > 100 {
			r.Probe("control_total_near_limit")
		}
	}
	hist = append(hist, "Flush")
	if err := cw.Flush(); err != nil {
		r.Failf("unexpected_error", "ControlWriter.Flush on a healthy destination: %v (history %v)", err, hist)
	}
	r.Note("C08 %s client=%v op=%d buf=%d history %v", r.Entry(), client, op, bufLen, hist)
	fs, rest, err := ref.DecodeAll(dst.Out)
	if err != nil || rest != 0 {
		r.Failf("reply_not_whole_frames", "ControlWriter history %v: output is not whole frames (rest=%d err=%v)", hist, rest, err)
	}
	var got []byte
	for i, f := range fs {
		if !f.Fin || len(f.Payload) > 125 || f.Op != op || f.Rsv != 0 || f.Masked != client {
			r.Failf("control_writer_bad_frame", "ControlWriter history %v emitted frame %d = %s (op %d expected): control frames must be final, at most 125 bytes, masked iff client", hist, i, frameStr(f), op)
		}
		got = append(got, f.Payload...)
	}
	if !bytes.Equal(got, acceptedTotal) {
		r.Failf("payload_mismatch", "ControlWriter history %v: %d bytes emitted, %d accepted%s", hist, len(got), len(acceptedTotal), firstDiff(got, acceptedTotal))
	}
}
